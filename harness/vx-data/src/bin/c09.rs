//! C09 — file meta group integrity and preamble handling.
//!
//! tables     65 536 file meta tables (4 required UIDs x {odd, even}; 5 optional strings x {absent,
//!            "", odd, even}; private information x {absent, [], 1 byte, 2 bytes}), each built through
//!            `FileMetaTableBuilder` and through the public fields + `update_information_group_length`
//! histories  explicit-state breadth-first search over `ApplyOp` histories on `FileMetaTable`
//!            (19 actions x 9 supported tags + 2 unsupported tags + 1 nested selector) from 4 base
//!            tables, states deduplicated by table value; the invariant is checked in every state on a
//!            table obtained by replaying the history from the base table
//! files      DS(1,0) objects x 4 transfer syntaxes written with preamble (`write_all`,
//!            `write_to_file`), read by path and from a byte source, with the preamble kept and with
//!            the 128 bytes stripped, with ReadPreamble Auto and the matching explicit option
//!
//! Invariant of a table t: t.information_group_length == bytes `write` emits after the 12-byte group
//! length element == length of the reference encoding of the fields; the written group is accepted by
//! the strict reference parser and holds the fields; `from_reader("DICM" + write(t)) == t`.
use dicom_core::ops::{ApplyOp, AttributeAction, AttributeOp, AttributeSelector};
use dicom_core::value::{PrimitiveValue, C};
use dicom_core::{Tag, VR};
use dicom_object::file::ReadPreamble;
use dicom_object::{FileMetaTable, FileMetaTableBuilder, OpenFileOptions};
use std::borrow::Cow;
use std::collections::HashMap;
use std::sync::atomic::{AtomicU64, Ordering};
use std::sync::Mutex;
use vx_data::rt::describe;
use vx_data::*;
use vx_kit::io::ScriptRead;
use vx_kit::{guard, json, Check, Level, Local};
use vx_ref::ds::{self as rds, RElem, RVal, Ts};

fn short<E: std::fmt::Debug>(e: E) -> String {
    format!("{e:?}").chars().take(300).collect()
}
fn with(base: &serde_json::Value, extra: serde_json::Value) -> serde_json::Value {
    let mut m = base.as_object().unwrap().clone();
    for (k, v) in extra.as_object().unwrap() {
        m.insert(k.clone(), v.clone());
    }
    serde_json::Value::Object(m)
}

// ---------------------------------------------------------------------------------------------
// the invariant
// ---------------------------------------------------------------------------------------------

/// reference elements of the group (without the group length) from the fields as they are stored
fn ref_elems(t: &FileMetaTable) -> Vec<RElem> {
    let mut v = vec![
        RElem::prim((2, 0x0001), "OB", &t.information_version),
        RElem::prim((2, 0x0002), "UI", t.media_storage_sop_class_uid.as_bytes()),
        RElem::prim((2, 0x0003), "UI", t.media_storage_sop_instance_uid.as_bytes()),
        RElem::prim((2, 0x0010), "UI", t.transfer_syntax.as_bytes()),
        RElem::prim((2, 0x0012), "UI", t.implementation_class_uid.as_bytes()),
    ];
    let mut opt = |tag: u16, vr: &str, s: &Option<String>| {
        if let Some(s) = s {
            v.push(RElem::prim((2, tag), vr, s.as_bytes()));
        }
    };
    opt(0x0013, "SH", &t.implementation_version_name);
    opt(0x0016, "AE", &t.source_application_entity_title);
    opt(0x0017, "AE", &t.sending_application_entity_title);
    opt(0x0018, "AE", &t.receiving_application_entity_title);
    opt(0x0100, "UI", &t.private_information_creator_uid);
    if let Some(p) = &t.private_information {
        v.push(RElem::prim((2, 0x0102), "OB", p));
    }
    v
}

fn trim_pad(b: &[u8]) -> &[u8] {
    match b.last() {
        Some(0) | Some(b' ') if b.len() % 2 == 0 => &b[..b.len() - 1],
        _ => b,
    }
}
fn trim_txt(s: &str) -> &str {
    s.trim_end_matches(['\0', ' '])
}
fn opt_eq(a: &Option<String>, b: &Option<String>) -> bool {
    match (a, b) {
        (None, None) => true,
        (Some(a), Some(b)) => trim_txt(a) == trim_txt(b),
        _ => false,
    }
}

/// Independent equality of two tables up to value padding.
fn tables_equal(a: &FileMetaTable, b: &FileMetaTable) -> Result<(), String> {
    let mut diffs = vec![];
    if a.information_group_length != b.information_group_length {
        diffs.push(format!("group length {} vs {}", a.information_group_length, b.information_group_length));
    }
    if a.information_version != b.information_version {
        diffs.push("information version".into());
    }
    for (n, x, y) in [
        ("sop class", &a.media_storage_sop_class_uid, &b.media_storage_sop_class_uid),
        ("sop instance", &a.media_storage_sop_instance_uid, &b.media_storage_sop_instance_uid),
        ("transfer syntax", &a.transfer_syntax, &b.transfer_syntax),
        ("implementation class", &a.implementation_class_uid, &b.implementation_class_uid),
    ] {
        if trim_txt(x) != trim_txt(y) {
            diffs.push(format!("{n}: {x:?} vs {y:?}"));
        }
    }
    for (n, x, y) in [
        ("implementation version name", &a.implementation_version_name, &b.implementation_version_name),
        ("source AE", &a.source_application_entity_title, &b.source_application_entity_title),
        ("sending AE", &a.sending_application_entity_title, &b.sending_application_entity_title),
        ("receiving AE", &a.receiving_application_entity_title, &b.receiving_application_entity_title),
        ("private creator", &a.private_information_creator_uid, &b.private_information_creator_uid),
    ] {
        if !opt_eq(x, y) {
            diffs.push(format!("{n}: {x:?} vs {y:?}"));
        }
    }
    let pe = match (&a.private_information, &b.private_information) {
        (None, None) => true,
        (Some(x), Some(y)) => x == y || (x.len() % 2 == 1 && y.len() == x.len() + 1 && y[..x.len()] == x[..] && y[x.len()] == 0) || (y.len() % 2 == 1 && x.len() == y.len() + 1 && x[..y.len()] == y[..] && x[y.len()] == 0),
        _ => false,
    };
    if !pe {
        diffs.push(format!("private information {:?} vs {:?}", a.private_information, b.private_information));
    }
    if diffs.is_empty() {
        Ok(())
    } else {
        Err(diffs.join("; "))
    }
}

/// The C09 invariant on one table. Err = (kind, message).
fn check_table(t: &FileMetaTable) -> Result<(), (&'static str, String)> {
    let elems = ref_elems(t);
    let ref_len = rds::encode_items(Ts::ExplicitLE, &elems).len() as u32;
    let gl = t.information_group_length;
    let written = guard(|| {
        let mut out = vec![];
        t.write(&mut out).map(|_| out).map_err(short)
    });
    let bytes = match written {
        Err(p) => return Err(("write-panic", p)),
        Ok(Err(e)) => return Err(("write-err", e)),
        Ok(Ok(b)) => b,
    };
    let head_ok = bytes.len() >= 12 && bytes[..8] == [0x02, 0, 0, 0, b'U', b'L', 4, 0];
    if !head_ok {
        return Err(("group-length-element-malformed", format!("written group starts with {}", hex(&bytes[..bytes.len().min(12)]))));
    }
    let gl_written = u32::from_le_bytes([bytes[8], bytes[9], bytes[10], bytes[11]]);
    let follow = (bytes.len() - 12) as u32;
    if gl_written != follow || gl != follow {
        return Err(("group-length-vs-written", format!("information_group_length={gl}, (0002,0000) written as {gl_written}, {follow} bytes follow; written {}", hex(&bytes[..bytes.len().min(160)]))));
    }
    if gl != ref_len {
        return Err(("group-length-vs-reference", format!("information_group_length={gl}, reference encoding of the fields has {ref_len} bytes")));
    }
    // strict, independent parse of preamble + DICM + group
    let mut file = vec![0u8; 128];
    file.extend_from_slice(b"DICM");
    file.extend_from_slice(&bytes);
    match rds::parse_file_head(&file) {
        Err(e) => return Err(("written-group-invalid", format!("{e}; written {}", hex(&bytes[..bytes.len().min(160)])))),
        Ok(h) => {
            if h.dataset_offset != file.len() {
                return Err(("written-group-invalid", format!("group ends at {} of {}", h.dataset_offset, file.len())));
            }
            if h.meta.len() != elems.len() {
                return Err(("written-group-differs", format!("tags written {:04X?}, expected {:04X?}", h.meta.iter().map(|e| e.tag).collect::<Vec<_>>(), elems.iter().map(|e| e.tag).collect::<Vec<_>>())));
            }
            for (w, e) in h.meta.iter().zip(&elems) {
                let (wb, eb) = match (&w.val, &e.val) {
                    (RVal::Prim(a), RVal::Prim(b)) => (a, b),
                    _ => return Err(("written-group-differs", "non-primitive element".into())),
                };
                if w.tag != e.tag || w.vr != e.vr || trim_pad(wb) != trim_pad(eb) {
                    return Err(("written-group-differs", format!("{:04X?}: written {} {} expected {} {}", e.tag, rds::vr_str(w.vr), hex(wb), rds::vr_str(e.vr), hex(eb))));
                }
            }
        }
    }
    // read back with dicom-rs
    let back = guard(|| FileMetaTable::from_reader(&file[128..]).map_err(short));
    let back = match back {
        Err(p) => return Err(("read-back-panic", p)),
        Ok(Err(e)) => return Err(("read-back-err", e)),
        Ok(Ok(b)) => b,
    };
    if let Err(m) = tables_equal(t, &back) {
        return Err(("read-back-differs", m));
    }
    if &back != t {
        return Err(("read-back-not-eq", format!("PartialEq says different: {t:?} vs {back:?}")));
    }
    Ok(())
}

// ---------------------------------------------------------------------------------------------
// part 1: tables
// ---------------------------------------------------------------------------------------------

const REQ: [(&str, &str); 4] = [("1.2.840.10008.5.1.4.1.1.7", "1.2.840.10008.5.1.4.1.1.77"), ("1.2.3", "1.2.34"), ("1.2.840.10008.1.2.1", "1.2.840.10008.1.2.4.50"), ("1.2.826.0.1.3680043.2.1143.1", "1.2.826.0.1.3680043.2.1143.15")];
const OPT: [(&str, &str); 5] = [("VX1", "VX12"), ("SRC", "SRCE"), ("SENDING", "SENDER"), ("RECEIVING12345AB", "R"), ("1.2.3", "1.2.34")];
const OPT_SHAPES: [&str; 4] = ["absent", "empty", "odd", "even"];
const PRIV_SHAPES: [&str; 4] = ["absent", "empty", "one-byte", "two-bytes"];

fn opt_value(field: usize, shape: usize) -> Option<String> {
    match shape {
        0 => None,
        1 => Some(String::new()),
        2 => {
            let (a, b) = OPT[field];
            Some(if a.len() % 2 == 1 { a } else { b }.to_string())
        }
        _ => {
            let (a, b) = OPT[field];
            Some(if a.len() % 2 == 0 { a } else { b }.to_string())
        }
    }
}
fn req_value(field: usize, even: bool) -> String {
    let (a, b) = REQ[field];
    let pick = if (a.len() % 2 == 0) == even { a } else { b };
    assert_eq!(pick.len() % 2 == 0, even, "alphabet parity of required field {field}");
    pick.to_string()
}
fn priv_value(shape: usize) -> Option<Vec<u8>> {
    match shape {
        0 => None,
        1 => Some(vec![]),
        2 => Some(vec![7]),
        _ => Some(vec![7, 9]),
    }
}

struct TableCase {
    req_even: [bool; 4],
    opt: [usize; 5],
    private: usize,
}

fn decode_table(i: u64) -> TableCase {
    let d = vx_kit::gen::unrank(i, &[2, 2, 2, 2, 4, 4, 4, 4, 4, 4]);
    TableCase { req_even: [d[0] == 1, d[1] == 1, d[2] == 1, d[3] == 1], opt: [d[4] as usize, d[5] as usize, d[6] as usize, d[7] as usize, d[8] as usize], private: d[9] as usize }
}

fn build_table(c: &TableCase, mode: &str) -> Result<FileMetaTable, String> {
    if mode == "builder" {
        let mut b = FileMetaTableBuilder::new()
            .media_storage_sop_class_uid(req_value(0, c.req_even[0]))
            .media_storage_sop_instance_uid(req_value(1, c.req_even[1]))
            .transfer_syntax(req_value(2, c.req_even[2]))
            .implementation_class_uid(req_value(3, c.req_even[3]));
        if let Some(v) = opt_value(0, c.opt[0]) {
            b = b.implementation_version_name(v);
        }
        if let Some(v) = opt_value(1, c.opt[1]) {
            b = b.source_application_entity_title(v);
        }
        if let Some(v) = opt_value(2, c.opt[2]) {
            b = b.sending_application_entity_title(v);
        }
        if let Some(v) = opt_value(3, c.opt[3]) {
            b = b.receiving_application_entity_title(v);
        }
        if let Some(v) = opt_value(4, c.opt[4]) {
            b = b.private_information_creator_uid(v);
        }
        if let Some(v) = priv_value(c.private) {
            b = b.private_information(v);
        }
        b.build().map_err(short)
    } else {
        // public fields, unpadded, then update_information_group_length
        let mut t = FileMetaTable {
            information_group_length: 0,
            information_version: [0, 1],
            media_storage_sop_class_uid: req_value(0, c.req_even[0]),
            media_storage_sop_instance_uid: req_value(1, c.req_even[1]),
            transfer_syntax: req_value(2, c.req_even[2]),
            implementation_class_uid: req_value(3, c.req_even[3]),
            implementation_version_name: opt_value(0, c.opt[0]),
            source_application_entity_title: opt_value(1, c.opt[1]),
            sending_application_entity_title: opt_value(2, c.opt[2]),
            receiving_application_entity_title: opt_value(3, c.opt[3]),
            private_information_creator_uid: opt_value(4, c.opt[4]),
            private_information: priv_value(c.private),
        };
        t.update_information_group_length();
        Ok(t)
    }
}

fn run_tables(check: &Check) {
    let n: u64 = 1 << 16;
    check.extra("tables", json!(n));
    check.par_range(n * 2, |l, k| {
        let i = k / 2;
        let mode = if k % 2 == 0 { "builder" } else { "fields" };
        let case_id = format!("table/{mode}/{i}");
        if !l.want(&case_id) {
            return;
        }
        l.eval();
        let c = decode_table(i);
        let par = |e: bool| if e { "even" } else { "odd" };
        let class = |kind: &str| {
            json!({"family": "table", "mode": mode, "kind": kind,
                "sop_class": par(c.req_even[0]), "sop_instance": par(c.req_even[1]), "transfer_syntax": par(c.req_even[2]), "implementation_class": par(c.req_even[3]),
                "implementation_version_name": OPT_SHAPES[c.opt[0]], "source_ae": OPT_SHAPES[c.opt[1]], "sending_ae": OPT_SHAPES[c.opt[2]], "receiving_ae": OPT_SHAPES[c.opt[3]],
                "private_creator": OPT_SHAPES[c.opt[4]], "private_information": PRIV_SHAPES[c.private]})
        };
        let t = match guard(|| build_table(&c, mode)) {
            Err(p) => {
                l.outcome("table-build-panic");
                l.fail(&case_id, class("build-panic"), json!({"message": p}));
                return;
            }
            Ok(Err(e)) => {
                l.outcome("table-build-err");
                l.fail(&case_id, class("build-err"), json!({"message": e}));
                return;
            }
            Ok(Ok(t)) => t,
        };
        l.nontrivial(&case_id);
        match check_table(&t) {
            Ok(()) => {
                let odd = c.req_even.iter().filter(|e| !**e).count() + c.opt.iter().filter(|s| **s == 2).count() + (c.private == 2) as usize;
                let empties = c.opt.iter().filter(|s| **s == 1).count() + (c.private == 1) as usize;
                let oc = match (odd > 0, empties > 0) {
                    (false, false) => "table-exact-all-even",
                    (true, false) => "table-exact-with-odd-values",
                    (false, true) => "table-exact-with-empty-values",
                    (true, true) => "table-exact-with-odd-and-empty-values",
                };
                l.outcome_with(oc, || json!({"case": case_id, "group_length": t.information_group_length, "table": format!("{t:?}")}));
            }
            Err((kind, m)) => {
                l.outcome(&format!("table-{kind}"));
                l.fail(&case_id, class(kind), json!({"table": format!("{t:?}"), "message": m}));
            }
        }
    });
    // builder defaults: missing implementation class / SOP class / SOP instance
    let mut l = check.local();
    for (name, b) in [
        ("only-ts", FileMetaTableBuilder::new().transfer_syntax("1.2.840.10008.1.2")),
        ("no-impl-class-own-version", FileMetaTableBuilder::new().transfer_syntax("1.2.840.10008.1.2.1").media_storage_sop_class_uid("1.2.3").implementation_version_name("MINE")),
        ("nul-padded-input", FileMetaTableBuilder::new().transfer_syntax("1.2.840.10008.1.2\0").media_storage_sop_class_uid("1.2.3\0").media_storage_sop_instance_uid("1.2.3.4\0\0").implementation_class_uid("1.2.3.4.5")),
    ] {
        let case_id = format!("table/defaults/{name}");
        if !l.want(&case_id) {
            continue;
        }
        l.eval();
        let class = |kind: &str| json!({"family": "table-defaults", "mode": "builder", "kind": kind, "which": name});
        match guard(|| b.clone().build().map_err(short)) {
            Ok(Ok(t)) => {
                l.nontrivial(&case_id);
                match check_table(&t) {
                    Ok(()) => l.outcome("table-defaults-exact"),
                    Err((kind, m)) => {
                        l.outcome(&format!("table-{kind}"));
                        l.fail(&case_id, class(kind), json!({"table": format!("{t:?}"), "message": m}));
                    }
                }
            }
            Ok(Err(e)) => {
                l.outcome("table-build-err");
                l.fail(&case_id, class("build-err"), json!({"message": e}));
            }
            Err(p) => {
                l.outcome("table-build-panic");
                l.fail(&case_id, class("build-panic"), json!({"message": p}));
            }
        }
    }
}

// ---------------------------------------------------------------------------------------------
// part 2: histories
// ---------------------------------------------------------------------------------------------

#[derive(Clone)]
struct OpSpec {
    name: String,
    tag_name: &'static str,
    action_name: &'static str,
    supported_tag: bool,
    op: AttributeOp,
}

fn op_alphabet() -> Vec<OpSpec> {
    let tags: Vec<(&'static str, Tag, bool)> = vec![
        ("MediaStorageSOPClassUID", Tag(2, 0x0002), true),
        ("MediaStorageSOPInstanceUID", Tag(2, 0x0003), true),
        ("TransferSyntaxUID", Tag(2, 0x0010), true),
        ("ImplementationClassUID", Tag(2, 0x0012), true),
        ("ImplementationVersionName", Tag(2, 0x0013), true),
        ("SourceApplicationEntityTitle", Tag(2, 0x0016), true),
        ("SendingApplicationEntityTitle", Tag(2, 0x0017), true),
        ("ReceivingApplicationEntityTitle", Tag(2, 0x0018), true),
        ("PrivateInformationCreatorUID", Tag(2, 0x0100), true),
        ("PrivateInformation", Tag(2, 0x0102), false),
        ("PatientName", Tag(0x0010, 0x0010), false),
    ];
    let s = |x: &str| PrimitiveValue::Str(x.to_string());
    let actions: Vec<(&'static str, AttributeAction)> = vec![
        ("Remove", AttributeAction::Remove),
        ("Empty", AttributeAction::Empty),
        ("SetVr", AttributeAction::SetVr(VR::LO)),
        ("Set-str-odd", AttributeAction::Set(s("1.2.3"))),
        ("Set-str-even", AttributeAction::Set(s("1.2.34"))),
        ("Set-strs", AttributeAction::Set(PrimitiveValue::Strs(["9.8.7".to_string(), "6".to_string()].into_iter().collect()))),
        ("Set-u16", AttributeAction::Set(PrimitiveValue::U16(C::from_elem(7, 1)))),
        ("Set-empty", AttributeAction::Set(PrimitiveValue::Empty)),
        ("SetStr-odd", AttributeAction::SetStr(Cow::Borrowed("1.2.5"))),
        ("SetStr-even", AttributeAction::SetStr(Cow::Borrowed("1.2.56"))),
        ("SetIfMissing-str-odd", AttributeAction::SetIfMissing(s("4.5.6"))),
        ("SetStrIfMissing-even", AttributeAction::SetStrIfMissing(Cow::Borrowed("4.5.67"))),
        ("Replace-str-even", AttributeAction::Replace(s("7.8.90"))),
        ("ReplaceStr-odd", AttributeAction::ReplaceStr(Cow::Borrowed("7.8.9"))),
        ("PushStr", AttributeAction::PushStr(Cow::Borrowed("X"))),
        ("PushU16", AttributeAction::PushU16(1)),
        ("PushF64", AttributeAction::PushF64(1.5)),
        ("Truncate-0", AttributeAction::Truncate(0)),
        ("Truncate-1", AttributeAction::Truncate(1)),
    ];
    let mut out = vec![];
    for (tn, tag, sup) in &tags {
        for (an, a) in &actions {
            out.push(OpSpec { name: format!("{tn}.{an}"), tag_name: tn, action_name: an, supported_tag: *sup, op: AttributeOp::new(*tag, a.clone()) });
        }
    }
    // a nested selector whose first step is a meta tag
    let sel: AttributeSelector = (Tag(2, 0x0013), 0, Tag(0x0008, 0x0018)).into();
    out.push(OpSpec { name: "ImplementationVersionName[0].SOPInstanceUID.SetStr-odd".into(), tag_name: "nested", action_name: "SetStr-odd", supported_tag: false, op: AttributeOp { selector: sel, action: AttributeAction::SetStr(Cow::Borrowed("1.2.5")) } });
    out
}

fn base_tables() -> Vec<(&'static str, FileMetaTable)> {
    let mk = |c: TableCase, mode: &str| build_table(&c, mode).expect("base table");
    vec![
        ("minimal-even", mk(TableCase { req_even: [true; 4], opt: [0; 5], private: 0 }, "builder")),
        ("full-odd", mk(TableCase { req_even: [false; 4], opt: [2; 5], private: 2 }, "fields")),
        ("full-even", mk(TableCase { req_even: [true, false, true, false], opt: [3; 5], private: 3 }, "builder")),
        ("empties", mk(TableCase { req_even: [false, true, false, true], opt: [1, 0, 1, 2, 1], private: 1 }, "fields")),
    ]
}

fn key_of(t: &FileMetaTable) -> String {
    format!("{t:?}")
}

struct Node0 {
    table: FileMetaTable,
    base: usize,
    hist: Vec<usize>,
}

fn run_histories(check: &Check) {
    let ops = op_alphabet();
    let bases = base_tables();
    let depth = check.pick(2, 3);
    check.extra("history_ops", json!(ops.len()));
    check.extra("history_depth_bound", json!(depth));
    let mut seen: HashMap<String, ()> = HashMap::new();
    let mut frontier: Vec<Node0> = vec![];
    for (bi, (_, t)) in bases.iter().enumerate() {
        if seen.insert(key_of(t), ()).is_none() {
            frontier.push(Node0 { table: t.clone(), base: bi, hist: vec![] });
        }
    }
    let mut states: u64 = 0;
    let transitions = AtomicU64::new(0);
    let traces = AtomicU64::new(0);
    let mut level = 0usize;
    let mut frontier_emptied = false;
    let mut per_level = vec![];
    loop {
        // check the invariant in every state of this level, on a table rebuilt by replaying its history
        states += frontier.len() as u64;
        per_level.push(frontier.len());
        check.par_range(frontier.len() as u64, |l, i| {
            let n = &frontier[i as usize];
            let hist_name: Vec<&str> = n.hist.iter().map(|o| ops[*o].name.as_str()).collect();
            let case_id = format!("hist/{}/{}", bases[n.base].0, if hist_name.is_empty() { "-".to_string() } else { hist_name.join("/") });
            if !l.want(&case_id) {
                return;
            }
            l.eval();
            let last = n.hist.last().map(|o| &ops[*o]);
            let class = |kind: &str| {
                json!({"family": "history", "kind": kind, "base": bases[n.base].0, "depth": n.hist.len(),
                    "last_tag": last.map(|o| o.tag_name).unwrap_or("-"), "last_action": last.map(|o| o.action_name).unwrap_or("-")})
            };
            // replay on the real table
            let replayed = guard(|| {
                let mut t = bases[n.base].1.clone();
                let mut results = vec![];
                for o in &n.hist {
                    results.push(ApplyOp::apply(&mut t, ops[*o].op.clone()).is_ok());
                }
                (t, results)
            });
            let (t, results) = match replayed {
                Ok(x) => x,
                Err(p) => {
                    l.outcome("history-apply-panic");
                    l.fail(&case_id, class("apply-panic"), json!({"history": hist_name, "message": p}));
                    return;
                }
            };
            if key_of(&t) != key_of(&n.table) {
                l.check.machinery_error(&format!("C09: replay of {case_id} reaches a different table than the search did"));
                return;
            }
            traces.fetch_add(1, Ordering::Relaxed);
            if !n.hist.is_empty() {
                l.nontrivial(&case_id);
            }
            match check_table(&t) {
                Ok(()) => {
                    let oc = if n.hist.is_empty() {
                        "history-base-table-consistent"
                    } else if *results.last().unwrap() {
                        "history-state-consistent-after-applied-op"
                    } else {
                        "history-state-consistent-after-rejected-op"
                    };
                    l.outcome_with(oc, || json!({"case": case_id, "group_length": t.information_group_length}));
                }
                Err((kind, m)) => {
                    l.outcome(&format!("history-{kind}"));
                    l.fail(&case_id, class(kind), json!({"history": hist_name, "op_results_ok": results, "table": format!("{t:?}"), "message": m}));
                }
            }
        });
        if level == depth {
            break;
        }
        // expand
        let cands: Mutex<Vec<(usize, usize, FileMetaTable, String)>> = Mutex::new(vec![]);
        check.par_range(frontier.len() as u64, |l, i| {
            let n = &frontier[i as usize];
            let mut local: Vec<(usize, usize, FileMetaTable, String)> = vec![];
            let before = key_of(&n.table);
            for (oi, o) in ops.iter().enumerate() {
                let mut t = n.table.clone();
                let r = guard(|| ApplyOp::apply(&mut t, o.op.clone()).is_ok());
                transitions.fetch_add(1, Ordering::Relaxed);
                let k = key_of(&t);
                let label = match (&r, k == before) {
                    (Err(_), _) => "transition-panic",
                    (Ok(true), false) => "transition-applied-changed",
                    (Ok(true), true) => "transition-applied-unchanged",
                    (Ok(false), true) => "transition-rejected-unchanged",
                    (Ok(false), false) => "transition-rejected-but-changed",
                };
                l.outcome(label);
                if let Err(p) = r {
                    let case_id = format!("hist/{}/{}/{}", bases[n.base].0, n.hist.iter().map(|x| ops[*x].name.as_str()).collect::<Vec<_>>().join("/"), o.name);
                    if l.want(&case_id) {
                        l.eval();
                        l.outcome("history-apply-panic");
                        l.fail(&case_id, json!({"family": "history", "kind": "apply-panic", "base": bases[n.base].0, "depth": n.hist.len() + 1, "last_tag": o.tag_name, "last_action": o.action_name}), json!({"message": p}));
                    }
                    continue;
                }
                if !seen.contains_key(&k) && !local.iter().any(|c| c.3 == k) {
                    local.push((i as usize, oi, t, k));
                }
                let _ = o.supported_tag;
            }
            cands.lock().unwrap().extend(local);
        });
        let mut cands = cands.into_inner().unwrap();
        cands.sort_by(|a, b| (a.0, a.1).cmp(&(b.0, b.1)));
        let mut next = vec![];
        for (fi, oi, t, k) in cands {
            if seen.insert(k, ()).is_none() {
                let mut hist = frontier[fi].hist.clone();
                hist.push(oi);
                next.push(Node0 { table: t, base: frontier[fi].base, hist });
            }
        }
        level += 1;
        if next.is_empty() {
            frontier_emptied = true;
            break;
        }
        frontier = next;
    }
    check.add_states(states);
    check.add_transitions(transitions.load(Ordering::Relaxed));
    check.add_traces(traces.load(Ordering::Relaxed));
    check.extra("history_states_per_level", json!(per_level));
    check.extra("history_fixpoint_reached", json!(frontier_emptied));
    if !frontier_emptied {
        check.extra("history_note", json!(format!("depth bound {depth} cut the search; the stated universe is all histories of length <= {depth}")));
    }
}

// ---------------------------------------------------------------------------------------------
// part 3: files and the preamble
// ---------------------------------------------------------------------------------------------

fn run_files(check: &Check) {
    let dict = Dict::load();
    let uni = ds1();
    check.extra("file_datasets", json!(uni.len()));
    let scratch = check.scratch_dir();
    let counter = AtomicU64::new(0);
    check.par_range(uni.len() as u64, |l, i| {
        let nodes = &uni[i as usize];
        let desc = describe(nodes);
        let expected = to_ref(nodes, 0);
        for (ti, uid) in TS4.iter().enumerate() {
            for meta_mode in ["with_exact_meta", "with_meta"] {
                run_file_case(l, &dict, &scratch, &counter, i as usize, nodes, &desc, &expected, ti, uid, meta_mode);
            }
        }
    });
    let _ = std::fs::remove_dir_all(&scratch);
}

#[allow(clippy::too_many_arguments)]
fn run_file_case(l: &mut Local, dict: &Dict, scratch: &std::path::Path, counter: &AtomicU64, idx: usize, nodes: &[Node], desc: &serde_json::Value, expected: &[RElem], ti: usize, uid: &str, meta_mode: &str) {
    let prefix = format!("file/ds{idx}/ts{ti}/{meta_mode}");
    let base = with(desc, json!({"family": "file", "ts": uid, "meta_mode": meta_mode}));
    let builder = FileMetaTableBuilder::new().transfer_syntax(uid).media_storage_sop_class_uid("1.2.840.10008.5.1.4.1.1.7").media_storage_sop_instance_uid("1.2.826.0.1.3680043.2.1143.515");
    let made = guard(|| -> Result<_, String> {
        let obj = to_obj(nodes);
        let f = if meta_mode == "with_meta" { obj.with_meta(builder.clone()).map_err(short)? } else { obj.with_exact_meta(builder.clone().build().map_err(short)?) };
        let mut v = vec![];
        f.write_all(&mut v).map_err(short)?;
        Ok((f, v))
    });
    let (fobj, bytes) = match made {
        Ok(Ok(x)) => x,
        other => {
            let case_id = format!("{prefix}/write");
            if l.want(&case_id) {
                l.eval();
                l.outcome("file-write-failed");
                let m = match other {
                    Err(p) => format!("panic: {p}"),
                    Ok(Err(e)) => e,
                    _ => unreachable!(),
                };
                l.fail(&case_id, with(&base, json!({"how": "write_all", "kind": "write-failed"})), json!({"dataset": labels(nodes), "message": m}));
            }
            return;
        }
    };
    let n = counter.fetch_add(1, Ordering::Relaxed);
    let p_with = scratch.join(format!("w{n}.dcm"));
    let p_without = scratch.join(format!("n{n}.dcm"));
    let cleanup = || {
        let _ = std::fs::remove_file(&p_with);
        let _ = std::fs::remove_file(&p_without);
    };
    // write_to_file must produce the same bytes as write_all, preamble first
    {
        let case_id = format!("{prefix}/write_to_file");
        if l.want(&case_id) {
            l.eval();
            let r = guard(|| fobj.write_to_file(&p_with).map_err(short));
            let cls = |kind: &str| with(&base, json!({"how": "write_to_file", "kind": kind}));
            match r {
                Ok(Ok(())) => {
                    let on_disk = std::fs::read(&p_with).unwrap_or_default();
                    let head_ok = bytes.len() >= 132 && bytes[..128].iter().all(|b| *b == 0) && &bytes[128..132] == b"DICM";
                    if on_disk != bytes {
                        l.outcome("file-write_to_file-differs-from-write_all");
                        l.fail(&case_id, cls("differs-from-write_all"), json!({"dataset": labels(nodes), "write_all": hex(&bytes[..bytes.len().min(300)]), "write_to_file": hex(&on_disk[..on_disk.len().min(300)])}));
                    } else if !head_ok {
                        l.outcome("file-no-preamble-written");
                        l.fail(&case_id, cls("no-preamble"), json!({"dataset": labels(nodes), "head": hex(&bytes[..bytes.len().min(140)])}));
                    } else {
                        // the group length of the file as judged by the independent parser
                        match rds::parse_file_head(&bytes) {
                            Ok(h) if h.group_length == fobj.meta().information_group_length && h.ts_uid == uid => l.outcome("file-written-with-preamble-and-consistent-group"),
                            Ok(h) => {
                                l.outcome("file-group-length-differs");
                                l.fail(&case_id, cls("group-length-differs"), json!({"dataset": labels(nodes), "file_group_length": h.group_length, "table": fobj.meta().information_group_length, "ts": h.ts_uid}));
                            }
                            Err(e) => {
                                l.outcome("file-head-invalid");
                                l.fail(&case_id, cls("file-head-invalid"), json!({"dataset": labels(nodes), "message": e.to_string(), "head": hex(&bytes[..bytes.len().min(300)])}));
                            }
                        }
                    }
                }
                other => {
                    l.outcome("file-write_to_file-failed");
                    let m = match other {
                        Err(p) => format!("panic: {p}"),
                        Ok(Err(e)) => e,
                        _ => unreachable!(),
                    };
                    l.fail(&case_id, cls("write-failed"), json!({"dataset": labels(nodes), "message": m}));
                }
            }
        } else {
            let _ = std::fs::write(&p_with, &bytes);
        }
    }
    if bytes.len() < 132 {
        cleanup();
        return;
    }
    let stripped = &bytes[128..];
    if std::fs::write(&p_without, stripped).is_err() || !p_with.exists() {
        l.check.machinery_error("C09: cannot write scratch files");
        cleanup();
        return;
    }
    let mode = if ti == 0 { VrMode::Implicit } else { VrMode::Explicit };
    let ways: [(&str, bool, bool, ReadPreamble); 8] = [
        ("path/preamble/auto", true, true, ReadPreamble::Auto),
        ("path/stripped/auto", true, false, ReadPreamble::Auto),
        ("source/preamble/auto", false, true, ReadPreamble::Auto),
        ("source/stripped/auto", false, false, ReadPreamble::Auto),
        ("path/preamble/always", true, true, ReadPreamble::Always),
        ("path/stripped/never", true, false, ReadPreamble::Never),
        ("source/preamble/always", false, true, ReadPreamble::Always),
        ("source/stripped/never", false, false, ReadPreamble::Never),
    ];
    for (how, by_path, with_preamble, opt) in ways {
        let case_id = format!("{prefix}/{how}");
        if !l.want(&case_id) {
            continue;
        }
        l.eval();
        l.nontrivial(&case_id);
        let cls = |kind: &str| with(&base, json!({"how": how, "kind": kind}));
        let r = guard(|| {
            let o = OpenFileOptions::new().read_preamble(opt);
            if by_path {
                o.open_file(if with_preamble { &p_with } else { &p_without }).map_err(short)
            } else {
                o.from_reader(if with_preamble { &bytes[..] } else { stripped }).map_err(short)
            }
        });
        let detail = |m: String| json!({"dataset": labels(nodes), "message": m, "file": hex(&stripped[..stripped.len().min(300)])});
        match r {
            Err(p) => {
                l.outcome("file-read-panic");
                l.fail(&case_id, cls("read-panic"), detail(p));
            }
            Ok(Err(e)) => {
                l.outcome("file-read-err");
                l.fail(&case_id, cls("read-err"), detail(e));
            }
            Ok(Ok(back)) => {
                let mut r = tables_equal(fobj.meta(), back.meta()).map_err(|m| ("meta-differs", m));
                if r.is_ok() && back.meta() != fobj.meta() {
                    r = Err(("meta-not-eq", format!("{:?} vs {:?}", fobj.meta(), back.meta())));
                }
                if r.is_ok() {
                    r = compare(expected, &canon(&back), mode, dict, false).map_err(|m| ("dataset-differs", m));
                }
                match r {
                    Ok(()) => l.outcome_with(if with_preamble { "file-read-back-equal-with-preamble" } else { "file-read-back-equal-without-preamble" }, || json!({"case": case_id})),
                    Err((kind, m)) => {
                        l.outcome(&format!("file-{kind}"));
                        l.fail(&case_id, cls(kind), detail(m));
                    }
                }
            }
        }
    }
    // environment observation (not a verdict): a byte source whose first read is shorter than 132 bytes
    for k in [3usize, 100, 131] {
        let case_id = format!("{prefix}/observe/short-first-read-{k}");
        if !l.want(&case_id) || idx % 16 != 0 {
            continue;
        }
        let r = guard(|| OpenFileOptions::new().from_reader(ScriptRead::segmented(bytes.clone(), vec![k, bytes.len() - k])).is_ok());
        l.outcome(match r {
            Ok(true) => "observed-short-first-read-still-read",
            Ok(false) => "observed-short-first-read-rejected",
            Err(_) => "observed-short-first-read-panic",
        });
    }
    cleanup();
}

fn main() {
    let check = Check::from_args("C09", Level::ModelChecking);
    check.set_rule("(tables) all 65 536 combinations of 4 required UIDs x {odd, even length}, 5 optional strings x {absent, empty, odd, even}, private information x {absent, empty, 1 byte, 2 bytes}, each built by FileMetaTableBuilder and by public fields + update_information_group_length, plus 3 builder-default tables; (histories) breadth-first search over all ApplyOp histories of length <= 2 (thorough: <= 3) over 210 operations (19 actions x 9 supported + 2 unsupported tags, 1 nested selector) from 4 base tables, states deduplicated by table value, invariant checked in every state on a table rebuilt by replaying the history; (files) every DS(1,0) data set x 4 transfer syntaxes x {with_exact_meta, with_meta} written by write_all and write_to_file, read by path and from a byte source, preamble kept and stripped, ReadPreamble Auto and the matching explicit option; a case is (family, parameters), distinct by case id; non-trivial = a table was built / a non-empty history replayed / a file read");
    check.assume("vx-ref Explicit VR LE encoder and strict file-head parser (group length consistent with content) are the trusted base; table equality is judged both by dicom-rs PartialEq and by an own field comparison up to one padding character");
    check.assume("a byte source whose first read returns fewer than 132 bytes is a schedule, not an input: it is executed as a labelled observation only");
    run_tables(&check);
    run_histories(&check);
    run_files(&check);
    check.finish();
}
