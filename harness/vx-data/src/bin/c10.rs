//! C10 — faithful text in every supported character set (DESIGN.md section 3, C10).
//!
//! Two independent repertoires per defined term decide what a set "can represent":
//!   P  = Python's own codec for the term (bitmaps written by pre/charsets.sh -> ref/charset_tables.py):
//!        P_rt (encodes and decodes back to itself), P_enc (encodes at all, incl. one-way aliases);
//!   E  = what the `encoding` crate's *decoder* for the codec that dicom-rs documents for the term can
//!        produce, found here by enumerating every byte sequence of the codec's code space.
//! must     = P_rt ∩ E      : encode succeeds and decode(encode(c)) == c
//! must-not = ¬P_enc ∩ ¬E   : encode is an Err (never Ok, never a substitute)
//! may      = everything else (the sources disagree, or only the wider codec knows the scalar):
//!            Err, or Ok and faithful; Ok-but-different is tolerated only for the one-way aliases
//!            that Python's codec itself has (P_enc \ P_rt, e.g. U+00A5 -> 5C in the Japanese sets).

use dicom_core::header::DataElement;
use dicom_core::value::{PrimitiveValue, Value};
use dicom_core::{Tag, VR};
use dicom_encoding::text::{SpecificCharacterSet, TextCodec};
use dicom_object::InMemDicomObject;
use encoding::types::EncodingRef;
use encoding::{DecoderTrap, EncoderTrap};
use std::collections::BTreeSet;
use vx_data::{std_tag, ts_by_uid, vr_of_str, TS4};
use vx_kit::{guard, json, Check, Level, Local, Value as J};
use vx_ref::ds::{self as rds, RVal, Ts};

const NCP: usize = 0x110000;

#[derive(Clone)]
struct Bits(Vec<u8>);
impl Bits {
    fn new() -> Self {
        Bits(vec![0; NCP / 8])
    }
    fn get(&self, cp: u32) -> bool {
        self.0[(cp >> 3) as usize] & (1 << (cp & 7)) != 0
    }
    fn set(&mut self, cp: u32) {
        self.0[(cp >> 3) as usize] |= 1 << (cp & 7);
    }
    fn count(&self) -> u64 {
        self.0.iter().map(|b| b.count_ones() as u64).sum()
    }
}

struct Set {
    term: &'static str,
    /// the codec dicom-rs documents for the term (module documentation of encoding/src/text.rs)
    enc: EncodingRef,
    family: Family,
    p_rt: Bits,
    p_enc: Bits,
    e_dec: Bits,
}

#[derive(Clone, Copy, PartialEq, Eq)]
enum Family {
    Single,
    /// double-byte with the given lead byte range
    Dbcs(u8, u8),
    Gb18030,
    Utf8,
    Iso2022Jp,
}

fn table() -> Vec<(&'static str, EncodingRef, Family)> {
    use encoding::all::*;
    vec![
        // ISO_IR 6: "Using 8859-1 because it is a superset" (DefaultCharacterSetCodec): the upper half
        // of Latin-1 is therefore known to E only and lands in the may class
        ("ISO_IR 6", ISO_8859_1 as EncodingRef, Family::Single),
        ("ISO_IR 13", WINDOWS_31J as EncodingRef, Family::Dbcs(0x81, 0xFC)),
        ("ISO_IR 87", ISO_2022_JP as EncodingRef, Family::Iso2022Jp),
        ("ISO_IR 100", ISO_8859_1 as EncodingRef, Family::Single),
        ("ISO_IR 101", ISO_8859_2 as EncodingRef, Family::Single),
        ("ISO_IR 109", ISO_8859_3 as EncodingRef, Family::Single),
        ("ISO_IR 110", ISO_8859_4 as EncodingRef, Family::Single),
        ("ISO_IR 126", ISO_8859_7 as EncodingRef, Family::Single),
        ("ISO_IR 127", ISO_8859_6 as EncodingRef, Family::Single),
        ("ISO_IR 138", ISO_8859_8 as EncodingRef, Family::Single),
        ("ISO_IR 144", ISO_8859_5 as EncodingRef, Family::Single),
        ("ISO_IR 149", WINDOWS_949 as EncodingRef, Family::Dbcs(0x81, 0xFE)),
        ("ISO_IR 166", WINDOWS_874 as EncodingRef, Family::Single),
        ("ISO_IR 192", UTF_8 as EncodingRef, Family::Utf8),
        ("GB18030", GB18030 as EncodingRef, Family::Gb18030),
        ("GBK", GBK as EncodingRef, Family::Dbcs(0x81, 0xFE)),
    ]
}

fn one_char(enc: EncodingRef, bytes: &[u8], into: &mut Bits) {
    if let Ok(s) = enc.decode(bytes, DecoderTrap::Strict) {
        let mut it = s.chars();
        if let (Some(c), None) = (it.next(), it.next()) {
            into.set(c as u32);
        }
    }
}

/// E: every scalar the decoder can produce from one code of its code space.
fn decoder_repertoire(enc: EncodingRef, fam: Family) -> Bits {
    let mut b = Bits::new();
    match fam {
        Family::Single => {
            for x in 0..=255u8 {
                one_char(enc, &[x], &mut b);
            }
        }
        Family::Dbcs(..) | Family::Gb18030 => {
            let (lo, hi) = if let Family::Dbcs(l, h) = fam { (l, h) } else { (0x81, 0xFE) };
            for x in 0..=255u8 {
                one_char(enc, &[x], &mut b);
            }
            for l in lo..=hi {
                for t in 0..=255u8 {
                    one_char(enc, &[l, t], &mut b);
                }
            }
            if fam == Family::Gb18030 {
                for b1 in 0x81..=0xFEu8 {
                    for b2 in 0x30..=0x39u8 {
                        for b3 in 0x81..=0xFEu8 {
                            for b4 in 0x30..=0x39u8 {
                                one_char(enc, &[b1, b2, b3, b4], &mut b);
                            }
                        }
                    }
                }
            }
        }
        Family::Utf8 => {
            let mut buf = [0u8; 4];
            for cp in 0..NCP as u32 {
                if let Some(c) = char::from_u32(cp) {
                    one_char(enc, c.encode_utf8(&mut buf).as_bytes(), &mut b);
                }
            }
        }
        Family::Iso2022Jp => {
            let escs: [&[u8]; 7] = [b"", b"\x1b(B", b"\x1b(J", b"\x1b(I", b"\x1b$@", b"\x1b$B", b"\x1b$(D"];
            for e in escs {
                for x in 0..=255u8 {
                    let mut v = e.to_vec();
                    v.push(x);
                    one_char(enc, &v, &mut b);
                }
                for x in 0x21..=0x7Eu8 {
                    for y in 0x21..=0x7Eu8 {
                        let mut v = e.to_vec();
                        v.push(x);
                        v.push(y);
                        one_char(enc, &v, &mut b);
                    }
                }
            }
        }
    }
    b
}

fn load_sets(check: &Check) -> Vec<Set> {
    let dir = check.verif_root().join("target/charsets");
    let tbl = table();
    let mut out: Vec<Option<Set>> = (0..tbl.len()).map(|_| None).collect();
    std::thread::scope(|s| {
        let handles: Vec<_> = tbl
            .iter()
            .map(|(term, enc, fam)| {
                let dir = dir.clone();
                s.spawn(move || {
                    let slug = term.replace(' ', "_");
                    let rd = |ext: &str| -> Bits {
                        let p = dir.join(format!("{slug}.{ext}.bin"));
                        let v = std::fs::read(&p).unwrap_or_else(|e| vx_kit::report::machinery(&format!("{}: {e} (pre-step charsets.sh not run?)", p.display())));
                        if v.len() != NCP / 8 {
                            vx_kit::report::machinery(&format!("{}: wrong size", p.display()));
                        }
                        Bits(v)
                    };
                    Set { term, enc: *enc, family: *fam, p_rt: rd("rt"), p_enc: rd("enc"), e_dec: decoder_repertoire(*enc, *fam) }
                })
            })
            .collect();
        for (i, h) in handles.into_iter().enumerate() {
            out[i] = Some(h.join().expect("table thread"));
        }
    });
    out.into_iter().map(|s| s.unwrap()).collect()
}

#[derive(Clone, Copy, PartialEq, Eq, Debug)]
enum Rep {
    Must,
    MustNot,
    May,
}
impl Rep {
    fn s(self) -> &'static str {
        match self {
            Rep::Must => "must",
            Rep::MustNot => "must-not",
            Rep::May => "may",
        }
    }
}
impl Set {
    fn class(&self, cp: u32) -> Rep {
        let (rt, en, e) = (self.p_rt.get(cp), self.p_enc.get(cp), self.e_dec.get(cp));
        if rt && e {
            Rep::Must
        } else if !en && !e {
            Rep::MustNot
        } else {
            Rep::May
        }
    }
    fn cs(&self) -> SpecificCharacterSet {
        SpecificCharacterSet::from_code(self.term).unwrap_or_else(|| vx_kit::report::machinery(&format!("from_code({}) is None", self.term)))
    }
    /// bytes of one character by the independent crate encoder (universe construction only)
    fn ref_bytes(&self, c: char) -> Option<Vec<u8>> {
        self.enc.encode(&c.to_string(), EncoderTrap::Strict).ok()
    }
}

fn scalars(check: &Check) -> Vec<u32> {
    if check.thorough() {
        (0..NCP as u32).filter(|cp| char::from_u32(*cp).is_some()).collect()
    } else {
        // every scalar of the BMP, plus for each supplementary plane its first two and last two code
        // points, plus U+1F600, U+20000, U+2A6D6, U+E0001
        let mut v: Vec<u32> = (0..0x10000u32).filter(|cp| char::from_u32(*cp).is_some()).collect();
        for p in 1..=16u32 {
            v.extend([p << 16, (p << 16) + 1, (p << 16) + 0xFFFE, (p << 16) + 0xFFFF]);
        }
        v.extend([0x1F600, 0x20000, 0x2A6D6, 0xE0001]);
        v.sort();
        v.dedup();
        v
    }
}

fn u(cp: u32) -> String {
    format!("U+{cp:04X}")
}
fn hex(b: &[u8]) -> String {
    b.iter().map(|x| format!("{x:02X}")).collect::<Vec<_>>().join(" ")
}

// ---------------------------------------------------------------------------------------------
// codec level
// ---------------------------------------------------------------------------------------------

/// returns whether dicom-rs accepted the scalar and it read back faithfully
fn codec_case(l: &mut Local, set: &Set, cs: &SpecificCharacterSet, cp: u32) -> bool {
    let c = char::from_u32(cp).unwrap();
    let case_id = format!("codec/{}/{}", set.term, u(cp));
    if !l.want(&case_id) {
        return false;
    }
    l.eval();
    l.nontrivial_distinct_by_construction(1);
    let rep = set.class(cp);
    let s = c.to_string();
    let cls = |kind: &str| json!({"level": "codec", "charset": set.term, "repertoire": rep.s(), "kind": kind});
    let enc = match guard(|| cs.encode(&s)) {
        Err(p) => {
            l.outcome("codec/panic");
            l.fail(&case_id, cls("encode-panic"), json!({"scalar": u(cp), "message": p}));
            return false;
        }
        Ok(r) => r,
    };
    match (rep, enc) {
        (Rep::Must, Err(e)) => {
            l.outcome("codec/must/encode-err");
            l.fail(&case_id, cls("encode-err"), json!({"scalar": u(cp), "message": format!("representable scalar rejected: {e}")}));
            false
        }
        (Rep::MustNot, Err(_)) => {
            l.outcome_with("codec/must-not/rejected", || json!({"case": case_id}));
            false
        }
        (Rep::May, Err(_)) => {
            l.outcome("codec/may/rejected");
            false
        }
        (rep, Ok(bytes)) => {
            let dec = match guard(|| cs.decode(&bytes)) {
                Err(p) => {
                    l.outcome("codec/panic");
                    l.fail(&case_id, cls("decode-panic"), json!({"scalar": u(cp), "encoded": hex(&bytes), "message": p}));
                    return false;
                }
                Ok(r) => r,
            };
            let faithful = matches!(&dec, Ok(d) if *d == s);
            match rep {
                Rep::Must => {
                    if faithful {
                        l.outcome_with("codec/must/roundtrip-ok", || json!({"case": case_id, "encoded": hex(&bytes)}));
                    } else {
                        l.outcome("codec/must/roundtrip-differs");
                        l.fail(&case_id, cls("roundtrip-differs"), json!({"scalar": u(cp), "encoded": hex(&bytes), "decoded": format!("{dec:?}")}));
                    }
                }
                Rep::MustNot => {
                    l.outcome("codec/must-not/accepted");
                    let kind = if faithful { "accepted-unrepresentable" } else { "substituted" };
                    l.fail(&case_id, cls(kind), json!({"scalar": u(cp), "encoded": hex(&bytes), "decoded": format!("{dec:?}"),
                        "message": "a scalar that neither repertoire contains was encoded without error"}));
                }
                Rep::May => {
                    if faithful {
                        l.outcome_with("codec/may/accepted-faithful", || json!({"case": case_id, "encoded": hex(&bytes)}));
                    } else if set.p_enc.get(cp) && !set.p_rt.get(cp) {
                        l.outcome_with("codec/may/accepted-alias-also-in-python", || json!({"case": case_id, "encoded": hex(&bytes), "decoded": format!("{dec:?}")}));
                    } else {
                        l.outcome("codec/may/accepted-not-faithful");
                        let mut c = cls("may-accepted-not-faithful");
                        c["scalar"] = json!(u(cp));
                        l.fail(&case_id, c, json!({"scalar": u(cp), "encoded": hex(&bytes), "decoded": format!("{dec:?}")}));
                    }
                }
            }
            faithful
        }
    }
}

// ---------------------------------------------------------------------------------------------
// alphabets and strings
// ---------------------------------------------------------------------------------------------

/// maximal runs of consecutive must-scalars above U+007F: (lo, hi)
fn must_blocks(set: &Set) -> Vec<(u32, u32)> {
    let mut out = vec![];
    let mut cur: Option<(u32, u32)> = None;
    for cp in 0x80..NCP as u32 {
        let m = char::from_u32(cp).is_some() && set.class(cp) == Rep::Must;
        match (m, cur) {
            (true, None) => cur = Some((cp, cp)),
            (true, Some((lo, _))) => cur = Some((lo, cp)),
            (false, Some(b)) => {
                out.push(b);
                cur = None;
            }
            _ => {}
        }
    }
    if let Some(b) = cur {
        out.push(b);
    }
    out
}

/// representative alphabet of a set (DESIGN: ASCII letter, space, ^, =, lowest/highest code point of
/// blocks of the repertoire, one character whose encoding contains 5C, one containing 1B)
fn alphabet(set: &Set) -> Vec<char> {
    let mut a: Vec<char> = vec!['A', ' ', '^', '='];
    let blocks = must_blocks(set);
    let mut picks: BTreeSet<u32> = BTreeSet::new();
    if let (Some(f), Some(l)) = (blocks.first(), blocks.last()) {
        picks.insert(f.0);
        picks.insert(l.1);
    }
    // the three largest blocks: both ends
    let mut by_size = blocks.clone();
    by_size.sort_by_key(|(lo, hi)| std::cmp::Reverse(hi - lo));
    for (lo, hi) in by_size.iter().take(3) {
        picks.insert(*lo);
        picks.insert(*hi);
    }
    let find = |byte: u8| -> Option<u32> {
        blocks.iter().flat_map(|(lo, hi)| *lo..=*hi).find(|cp| {
            let c = char::from_u32(*cp).unwrap();
            set.ref_bytes(c).map(|b| b.contains(&byte)).unwrap_or(false)
        })
    };
    if let Some(cp) = find(0x5C) {
        picks.insert(cp);
    }
    if let Some(cp) = find(0x1B) {
        picks.insert(cp);
    }
    a.extend(picks.into_iter().filter_map(char::from_u32));
    a
}

fn string_case(l: &mut Local, set: &Set, cs: &SpecificCharacterSet, s: &str, idx: usize) {
    let case_id = format!("string/{}/{idx}", set.term);
    if !l.want(&case_id) {
        return;
    }
    l.eval();
    l.nontrivial_distinct_by_construction(1);
    let n = s.chars().count();
    let cls = |kind: &str| json!({"level": "string", "charset": set.term, "len": n, "kind": kind});
    let det = |m: String| json!({"string": s.chars().map(|c| u(c as u32)).collect::<Vec<_>>().join(" "), "message": m});
    match guard(|| cs.encode(s).map(|b| (cs.decode(&b), b))) {
        Err(p) => {
            l.outcome("string/panic");
            l.fail(&case_id, cls("panic"), det(p));
        }
        Ok(Err(e)) => {
            l.outcome("string/encode-err");
            l.fail(&case_id, cls("encode-err"), det(e.to_string()));
        }
        Ok(Ok((Ok(d), b))) if d == s => l.outcome_with("string/roundtrip-ok", || json!({"case": case_id, "encoded": hex(&b)})),
        Ok(Ok((d, b))) => {
            l.outcome("string/roundtrip-differs");
            l.fail(&case_id, cls("roundtrip-differs"), det(format!("encoded {} decoded {d:?}", hex(&b))));
        }
    }
}

// ---------------------------------------------------------------------------------------------
// data set level
// ---------------------------------------------------------------------------------------------

const CHARSET_TAG: Tag = Tag(0x0008, 0x0005);
const MULTI_VRS: [&str; 4] = ["LO", "SH", "PN", "UC"];
const TEXT_VRS: [&str; 3] = ["LT", "ST", "UT"];

fn strs_value(v: &[String]) -> PrimitiveValue {
    if v.len() == 1 {
        PrimitiveValue::Str(v[0].clone())
    } else {
        PrimitiveValue::Strs(v.iter().cloned().collect())
    }
}

fn ref_ts_of(uid: &str) -> Ts {
    match uid {
        "1.2.840.10008.1.2" => Ts::ImplicitLE,
        "1.2.840.10008.1.2.2" => Ts::ExplicitBE,
        _ => Ts::ExplicitLE,
    }
}


// ---------------------------------------------------------------------------------------------
// every reading configuration of the stateful decoder
// ---------------------------------------------------------------------------------------------

use dicom_object::collector::DicomCollector;
use dicom_parser::dataset::lazy_read::LazyDataSetReader;
use dicom_parser::dataset::read::{DataSetReader, DataSetReaderOptions, ValueReadStrategy};
use dicom_parser::dataset::{DataToken, LazyDataToken};

/// names of the read paths (all must switch character set at (0008,0005))
const READERS: [&str; 8] = [
    "object", "dsr-preserved", "dsr-interpreted", "dsr-raw", "lazy-owned-preserved", "lazy-owned-interpreted", "lazy-value", "collector",
];

fn es<E: std::fmt::Debug>(e: E) -> String {
    format!("{e:?}").chars().take(200).collect()
}

/// value of element `tag` as delivered by one read path (None: element not seen)
fn read_with(reader: &str, bytes: &[u8], ts_uid: &'static str, tag: Tag) -> Result<Option<PrimitiveValue>, String> {
    let ts = ts_by_uid(ts_uid);
    let dsr = |strategy: ValueReadStrategy| -> Result<Option<PrimitiveValue>, String> {
        let r = DataSetReader::new_with_ts_options(bytes, ts, DataSetReaderOptions::default().value_read(strategy)).map_err(es)?;
        let (mut want, mut found) = (false, None);
        for tok in r {
            match tok.map_err(es)? {
                DataToken::ElementHeader(h) => want = h.tag == tag,
                DataToken::PrimitiveValue(v) => {
                    if want {
                        found = Some(v);
                    }
                    want = false;
                }
                _ => {}
            }
        }
        Ok(found)
    };
    let lazy = |strategy: Option<ValueReadStrategy>| -> Result<Option<PrimitiveValue>, String> {
        let mut r = LazyDataSetReader::new_with_ts(std::io::Cursor::new(bytes), ts).map_err(es)?;
        let (mut want, mut found) = (false, None);
        while let Some(tok) = r.advance() {
            let tok = tok.map_err(es)?;
            match strategy {
                Some(st) => match tok.into_owned_with_strategy(st).map_err(es)? {
                    DataToken::ElementHeader(h) => want = h.tag == tag,
                    DataToken::PrimitiveValue(v) => {
                        if want {
                            found = Some(v);
                        }
                        want = false;
                    }
                    _ => {}
                },
                None => match tok {
                    LazyDataToken::ElementHeader(h) => want = h.tag == tag,
                    t @ LazyDataToken::LazyValue { .. } => {
                        let v = t.into_value().map_err(es)?;
                        if want {
                            found = Some(v);
                        }
                        want = false;
                    }
                    t => t.skip().map_err(es)?,
                },
            }
        }
        Ok(found)
    };
    let from_obj = |o: &InMemDicomObject| o.element(tag).ok().and_then(|e| e.value().primitive().cloned());
    match reader {
        "object" => InMemDicomObject::read_dataset_with_ts(bytes, ts).map(|o| from_obj(&o)).map_err(es),
        "dsr-preserved" => dsr(ValueReadStrategy::Preserved),
        "dsr-interpreted" => dsr(ValueReadStrategy::Interpreted),
        "dsr-raw" => dsr(ValueReadStrategy::Raw),
        "lazy-owned-preserved" => lazy(Some(ValueReadStrategy::Preserved)),
        "lazy-owned-interpreted" => lazy(Some(ValueReadStrategy::Interpreted)),
        "lazy-value" => lazy(None),
        "collector" => {
            let mut c = DicomCollector::new_with_ts(std::io::BufReader::new(std::io::Cursor::new(bytes)), ts_uid);
            let mut o = InMemDicomObject::new_empty();
            c.read_dataset_to_end(&mut o).map_err(es)?;
            Ok(from_obj(&o))
        }
        _ => unreachable!(),
    }
}

/// the strings of a text value, padding removed
fn texts_of(v: &PrimitiveValue) -> Option<Vec<String>> {
    match v {
        PrimitiveValue::Str(s) => Some(vec![trim_pad(s).to_string()]),
        PrimitiveValue::Strs(v) => Some(v.iter().map(|s| trim_pad(s).to_string()).collect()),
        _ => None,
    }
}

static TIMES: [std::sync::atomic::AtomicU64; 8] = [const { std::sync::atomic::AtomicU64::new(0) }; 8];

struct DsCase {
    /// how the Specific Character Set value is held: "str" (Str) or "strs1" (Strs with one term:
    /// the other charset-switching arm of the encoder)
    form: &'static str,
    /// all 8 read paths, or (bulk cases of the thorough tier) object + dsr-interpreted + lazy-value
    all_readers: bool,
    si: usize,
    vr: &'static str,
    shape: &'static str,
    values: Vec<String>,
    rep: Rep,
    has5c: bool,
    ts: &'static str,
    id: String,
}

fn trim_pad(s: &str) -> &str {
    s.trim_end_matches(' ')
}

fn dataset_case(l: &mut Local, sets: &[Set], c: &DsCase) {
    if !l.want(&c.id) {
        return;
    }
    l.eval();
    l.nontrivial_distinct_by_construction(1);
    let set = &sets[c.si];
    let tag = std_tag(c.vr);
    let tagt = Tag(tag.0, tag.1);
    let cls = |stage: &str, kind: &str| {
        json!({"level": "dataset", "charset": set.term, "vr": c.vr, "ts": c.ts, "shape": c.shape, "repertoire": c.rep.s(),
               "charset_form": c.form, "encoded_contains_5c": c.has5c, "value_ends_non_ascii": c.values.iter().any(|v| v.chars().last().map(|ch| ch as u32 >= 0x80).unwrap_or(false)),
               "stage": stage, "kind": kind, "reader": "-"})
    };
    let det = |m: String, wire: &[u8]| {
        json!({"values": c.values.iter().map(|s| s.chars().map(|ch| u(ch as u32)).collect::<Vec<_>>().join(" ")).collect::<Vec<_>>(),
               "stream": hex(&wire[..wire.len().min(96)]), "message": m})
    };
    let obj = InMemDicomObject::from_element_iter([
        DataElement::new(
            CHARSET_TAG,
            VR::CS,
            Value::Primitive(if c.form == "strs1" { PrimitiveValue::Strs([set.term.to_string()].into_iter().collect()) } else { PrimitiveValue::Str(set.term.to_string()) }),
        ),
        DataElement::new(tagt, vr_of_str(c.vr), Value::Primitive(strs_value(&c.values))),
    ]);
    let ts = ts_by_uid(c.ts);
    let mut out = vec![];
    match guard(|| obj.write_dataset_with_ts(&mut out, ts)) {
        Err(p) => {
            l.outcome("dataset/write-panic");
            l.fail(&c.id, cls("write", "panic"), det(p, &[]));
            return;
        }
        Ok(Err(e)) => {
            l.outcome("dataset/write-err");
            l.fail(&c.id, cls("write", "write-err"), det(format!("{e:?}").chars().take(200).collect(), &[]));
            return;
        }
        Ok(Ok(())) => {}
    }
    // wire: the value bytes decode, by the independent decoder, to the text that was written
    let joined = c.values.join("\\");
    let vr_of = |t: (u16, u16)| if t == (8, 5) { Some(*b"CS") } else if t == tag { Some(rds::vr(c.vr)) } else { None };
    match rds::parse(ref_ts_of(c.ts), &out, &vr_of) {
        Err(e) => {
            l.outcome("dataset/wire-invalid");
            l.fail(&c.id, cls("wire", "structurally-invalid"), det(e.to_string(), &out));
            return;
        }
        Ok(tree) => {
            let bytes = tree.iter().find(|e| e.tag == tag).and_then(|e| if let RVal::Prim(b) = &e.val { Some(b.clone()) } else { None });
            let ok = match &bytes {
                // the padding byte is not part of the value: judged with and without it
                Some(b) => {
                    let dec = |x: &[u8]| matches!(set.enc.decode(x, DecoderTrap::Strict), Ok(d) if trim_pad(&d) == joined);
                    dec(b) || (b.last() == Some(&0x20) && dec(&b[..b.len() - 1]))
                }
                None => false,
            };
            if !ok {
                l.outcome("dataset/wire-not-in-declared-set");
                l.fail(&c.id, cls("wire", "wire-differs"), det(format!("value bytes {:?} do not decode to the text under {}", bytes.map(|b| hex(&b)), set.term), &out));
                return;
            }
        }
    }
    for (ri, reader) in READERS.iter().enumerate() {
        if !c.all_readers && !matches!(*reader, "object" | "dsr-interpreted" | "lazy-value") {
            continue;
        }
        if ri > 0 {
            l.eval();
            l.nontrivial_distinct_by_construction(1);
        }
        let rcls = |stage: &str, kind: &str| {
            let mut v = cls(stage, kind);
            v["reader"] = json!(reader);
            v
        };
        let t0 = std::time::Instant::now();
        let res = guard(|| read_with(reader, &out, c.ts, tagt));
        TIMES[ri].fetch_add(t0.elapsed().as_nanos() as u64, std::sync::atomic::Ordering::Relaxed);
        let v = match res {
            Err(p) => {
                l.outcome("dataset/read-panic");
                l.fail(&c.id, rcls("read", "panic"), det(p, &out));
                continue;
            }
            Ok(Err(e)) => {
                l.outcome("dataset/read-err");
                l.fail(&c.id, rcls("read", "read-err"), det(e, &out));
                continue;
            }
            Ok(Ok(v)) => v,
        };
        let (equal, shown) = match (&v, *reader) {
            (Some(PrimitiveValue::U8(b)), "dsr-raw") => {
                // raw bytes: judged by the independent decoder (padding is not part of the value)
                let dec = |x: &[u8]| matches!(set.enc.decode(x, DecoderTrap::Strict), Ok(d) if trim_pad(&d) == joined);
                (dec(b) || (b.last() == Some(&0x20) && dec(&b[..b.len() - 1])), format!("raw {}", hex(b)))
            }
            (Some(p), _) => {
                let t = texts_of(p);
                (t.as_ref() == Some(&c.values), format!("{t:?}"))
            }
            (None, _) => (false, "element not delivered".to_string()),
        };
        if equal {
            l.outcome_with(&format!("dataset/readback-equal/{reader}"), || json!({"case": c.id, "stream": hex(&out[..out.len().min(64)])}));
        } else {
            l.outcome(&format!("dataset/readback-differs/{reader}"));
            l.fail(&c.id, rcls("readback", "readback-differs"), det(format!("{reader} read back {shown}"), &out));
        }
    }
}

/// restricted VRs: bytes identical to the default-repertoire encoding, values read back unchanged
fn restricted_case(l: &mut Local, set: &Set, vr: &'static str, val: &str, ts_uid: &'static str) {
    let id = format!("restricted/{}/{vr}/{ts_uid}", set.term);
    if !l.want(&id) {
        return;
    }
    l.eval();
    l.nontrivial_distinct_by_construction(1);
    let tag = std_tag(vr);
    let tagt = Tag(tag.0, tag.1);
    let ts = ts_by_uid(ts_uid);
    let cls = |kind: &str| json!({"level": "restricted", "charset": set.term, "vr": vr, "ts": ts_uid, "kind": kind});
    let elem = || DataElement::new(tagt, vr_of_str(vr), Value::Primitive(PrimitiveValue::Str(val.to_string())));
    let with = InMemDicomObject::from_element_iter([DataElement::new(CHARSET_TAG, VR::CS, Value::Primitive(PrimitiveValue::Str(set.term.to_string()))), elem()]);
    let without = InMemDicomObject::from_element_iter([elem()]);
    let r = guard(|| {
        let (mut a, mut b) = (vec![], vec![]);
        with.write_dataset_with_ts(&mut a, ts).map_err(|e| format!("{e:?}"))?;
        without.write_dataset_with_ts(&mut b, ts).map_err(|e| format!("{e:?}"))?;
        Ok::<_, String>((a, b))
    });
    let (a, b) = match r {
        Err(p) => {
            l.outcome("restricted/panic");
            l.fail(&id, cls("panic"), json!({"message": p}));
            return;
        }
        Ok(Err(e)) => {
            l.outcome("restricted/err");
            l.fail(&id, cls("err"), json!({"message": e.chars().take(200).collect::<String>()}));
            return;
        }
        Ok(Ok(x)) => x,
    };
    if !a.ends_with(&b) {
        l.outcome("restricted/bytes-differ");
        l.fail(&id, cls("bytes-differ"), json!({"with_charset": hex(&a), "default": hex(&b)}));
        return;
    }
    for (ri, reader) in READERS.iter().enumerate() {
        if ri > 0 {
            l.eval();
            l.nontrivial_distinct_by_construction(1);
        }
        let rcls = |kind: &str| {
            let mut v = cls(kind);
            v["reader"] = json!(reader);
            v
        };
        match guard(|| read_with(reader, &a, ts_uid, tagt)) {
            Err(p) => {
                l.outcome("restricted/panic");
                l.fail(&id, rcls("panic"), json!({"message": p}));
            }
            Ok(Err(e)) => {
                l.outcome("restricted/err");
                l.fail(&id, rcls("err"), json!({"message": e}));
            }
            Ok(Ok(v)) => {
                let got: Option<String> = match &v {
                    Some(PrimitiveValue::U8(bytes)) if *reader == "dsr-raw" => {
                        Some(String::from_utf8_lossy(bytes).trim_end_matches([' ', '\0']).to_string())
                    }
                    // typed dates/times/numbers: their encoded (DICOM text) form
                    Some(p) => Some(p.to_multi_str().join("\\").trim_end_matches([' ', '\0']).to_string()),
                    None => None,
                };
                if got.as_deref() == Some(val) {
                    l.outcome_with("restricted/unaffected", || json!({"case": id}));
                } else {
                    l.outcome("restricted/readback-differs");
                    l.fail(&id, rcls("readback-differs"), json!({"read": format!("{got:?}"), "written": val}));
                }
            }
        }
    }
}

fn ranges(cps: impl Iterator<Item = u32>, cap: usize) -> (u64, Vec<String>) {
    let mut n = 0u64;
    let mut out: Vec<(u32, u32)> = vec![];
    for cp in cps {
        n += 1;
        match out.last_mut() {
            Some((_, hi)) if *hi + 1 == cp => *hi = cp,
            _ => out.push((cp, cp)),
        }
    }
    let total = out.len();
    let mut v: Vec<String> = out.iter().take(cap).map(|(a, b)| if a == b { u(*a) } else { format!("{}..{}", u(*a), u(*b)) }).collect();
    if total > cap {
        v.push(format!("... {} more ranges", total - cap));
    }
    (n, v)
}

fn phase(t: &std::time::Instant, name: &str) {
    if std::env::var("VX_TIMING").is_ok() {
        eprintln!("phase {name} done at {:.1}s", t.elapsed().as_secs_f64());
    }
}

fn main() {
    let check = Check::from_args("C10", Level::Exploration);
    check.set_rule("codec level: 16 defined terms x every Unicode scalar value (quick: every scalar <= U+FFFF plus the first two and last two code points of each supplementary plane plus U+1F600, U+20000, U+2A6D6, U+E0001) as a one-character string through SpecificCharacterSet::{encode, decode}, judged per class must / must-not / may built from two independent repertoires (Python codec bitmaps; byte-sequence enumeration of the encoding crate's decoder); all strings of length <= 3 over a per-set representative alphabet (A, space, ^, =, ends of the first/last/three largest contiguous repertoire blocks, one character whose encoding contains 5C, one containing 1B); from_code(name) identity for the 16 terms. Data-set level: after a leading (0008,0005), for LO SH PN UC (single, embedded, two-valued, two-valued embedded) and LT ST UT (single, embedded, with a backslash) every must / faithfully-accepted may character whose encoding contains one of 5C 1B 00 20 5E 3D (for ISO_IR 87: 5C 5E 3D in the JIS code bytes) plus the alphabet, x {Implicit, Explicit VR LE} (thorough: + Explicit BE and every must character in LO and PN): the wire bytes decode to the text under the declared set by the independent decoder and the text reads back unchanged through every read path (InMemDicomObject, DataSetReader with ValueReadStrategy Preserved / Interpreted / Raw (raw bytes judged by the independent decoder), LazyDataSetReader with into_owned Preserved / Interpreted and into_value, DicomCollector; the bulk thorough cases use object + Interpreted + lazy into_value), with the Specific Character Set value held as Str and (LO, LT) as a one-term Strs; restricted VRs (CS AE UI DA IS AS DS TM DT) are byte-identical to the default encoding and read back unchanged through the same 8 read paths. A case is (level, term, scalar / string index / vr+shape+ts); distinct by construction");
    check.assume("Python's codecs (ref/charset_tables.py, term -> codec from PS3.3 C.12.1.1.2) and the encoding crate's decoders (term -> codec from the module documentation of encoding/src/text.rs) are the two independent repertoire sources; only scalars on which both agree are in the must and must-not classes; vx-ref parser locates the value bytes");
    let t_start = std::time::Instant::now();
    let sets = load_sets(&check);
    phase(&t_start, "tables");
    // repertoire statistics and the disagreement list
    let mut stats = serde_json::Map::new();
    for s in &sets {
        let all = || (0..NCP as u32).filter(|cp| char::from_u32(*cp).is_some());
        let must = all().filter(|cp| s.class(*cp) == Rep::Must).count();
        let must_not = all().filter(|cp| s.class(*cp) == Rep::MustNot).count();
        let (nd, dis) = ranges(all().filter(|cp| s.p_rt.get(*cp) != s.e_dec.get(*cp)), 24);
        stats.insert(
            s.term.to_string(),
            json!({"python_roundtrip": s.p_rt.count(), "python_encodable": s.p_enc.count(), "decoder_producible": s.e_dec.count(),
                   "must": must, "must_not": must_not, "may": 1_112_064 - must - must_not, "disagreements": nd, "disagreement_ranges": dis}),
        );
        if must < 100 {
            check.machinery_error(&format!("{}: must class has only {must} scalars (tables broken?)", s.term));
        }
    }
    check.extra("repertoires", J::Object(stats));

    // term identity
    {
        let mut l = check.local();
        for s in &sets {
            let id = format!("term/{}", s.term);
            if !l.want(&id) {
                continue;
            }
            l.eval();
            l.nontrivial_distinct_by_construction(1);
            let r = guard(|| {
                let cs = SpecificCharacterSet::from_code(s.term)?;
                let name = cs.name().to_string();
                let again = SpecificCharacterSet::from_code(&name)?;
                Some((name, again == cs))
            });
            match r {
                Ok(Some((name, true))) if name == s.term => l.outcome_with("term/maps-back", || json!({"case": id})),
                other => {
                    l.outcome("term/differs");
                    l.fail(&id, json!({"level": "term", "charset": s.term, "kind": "term-does-not-map-back"}), json!({"got": format!("{other:?}")}));
                }
            }
        }
    }

    phase(&t_start, "stats+terms");
    // codec level; collect per set the scalars that were accepted faithfully (for the data-set level)
    let sc = scalars(&check);
    check.extra("scalars_per_set", json!(sc.len()));
    const CHUNK: usize = 2048;
    let nchunks = sc.len().div_ceil(CHUNK);
    let accepted: Vec<std::sync::Mutex<Vec<u32>>> = sets.iter().map(|_| std::sync::Mutex::new(vec![])).collect();
    check.par_range((sets.len() * nchunks) as u64, |l, i| {
        let (si, ci) = (i as usize / nchunks, i as usize % nchunks);
        let set = &sets[si];
        let cs = set.cs();
        let mut acc = vec![];
        for cp in &sc[ci * CHUNK..((ci + 1) * CHUNK).min(sc.len())] {
            if codec_case(l, set, &cs, *cp) {
                acc.push(*cp);
            }
        }
        accepted[si].lock().unwrap().extend(acc);
    });

    phase(&t_start, "codec");
    // strings over the representative alphabets
    let alphabets: Vec<Vec<char>> = sets.iter().map(alphabet).collect();
    check.extra("alphabets", json!(sets.iter().zip(&alphabets).map(|(s, a)| (s.term.to_string(), json!(a.iter().map(|c| u(*c as u32)).collect::<Vec<_>>()))).collect::<serde_json::Map<_, _>>()));
    check.par_range(sets.len() as u64, |l, si| {
        let set = &sets[si as usize];
        let cs = set.cs();
        let a = &alphabets[si as usize];
        for (idx, w) in vx_kit::gen::words(a.len(), 3).into_iter().enumerate() {
            if w.is_empty() {
                continue;
            }
            let s: String = w.iter().map(|k| a[*k]).collect();
            string_case(l, set, &cs, &s, idx);
        }
    });

    phase(&t_start, "strings");
    // data-set level
    let tss: Vec<&'static str> = if check.thorough() { vec![TS4[0], TS4[1], TS4[2]] } else { vec![TS4[0], TS4[1]] };
    let special: [u8; 6] = [0x5C, 0x1B, 0x00, 0x20, 0x5E, 0x3D];
    // (generated per set in parallel; the order of cases is fixed by the set index afterwards)
    let per_set: Vec<std::sync::Mutex<Vec<DsCase>>> = sets.iter().map(|_| std::sync::Mutex::new(vec![])).collect();
    let thorough = check.thorough();
    check.par_range(sets.len() as u64, |_l, si| {
        let si = si as usize;
        let set = &sets[si];
        let mut cases: Vec<DsCase> = vec![];
        let mut acc = accepted[si].lock().unwrap().clone();
        acc.sort();
        let mut chars: BTreeSet<u32> = BTreeSet::new();
        // in the single-byte sets and in UTF-8 every byte of a non-ASCII character is >= 80
        let can_have_special = !matches!(set.family, Family::Single | Family::Utf8);
        for cp in &acc {
            // structural characters of a DICOM text value are not value content
            if *cp < 0x80 || !can_have_special {
                continue;
            }
            let c = char::from_u32(*cp).unwrap();
            let Some(b) = set.ref_bytes(c) else { continue };
            let payload: Vec<u8> = if set.family == Family::Iso2022Jp {
                // every JIS X 0208 character carries 1B in its escape: select on the code bytes
                b.iter().copied().filter(|x| *x != 0x1B).skip(2).collect::<Vec<u8>>().into_iter().take(2).collect()
            } else {
                b.clone()
            };
            if payload.iter().any(|x| special.contains(x)) {
                chars.insert(*cp);
            }
        }
        for c in &alphabets[si] {
            if (*c as u32) >= 0x80 {
                chars.insert(*c as u32);
            }
        }
        let thorough_all: Vec<u32> = if thorough { acc.iter().copied().filter(|cp| *cp >= 0x80 && set.class(*cp) == Rep::Must).collect() } else { vec![] };
        let mk = |cp: u32, vr: &'static str, shape: &'static str, ts: &'static str, all_readers: bool, cases: &mut Vec<DsCase>| {
            let c = char::from_u32(cp).unwrap();
            let values: Vec<String> = match shape {
                "single" => vec![c.to_string()],
                "embedded" => vec![format!("A{c}B")],
                "two" => vec![c.to_string(), "A".to_string()],
                "two-embedded" => vec![format!("A{c}"), format!("{c}B")],
                "with-backslash" => vec![format!("{c}\\A")],
                _ => unreachable!(),
            };
            let has5c = set.ref_bytes(c).map(|b| b.contains(&0x5C)).unwrap_or(false);
            let id = format!("dataset/{}/{}/{vr}/{shape}/{ts}", set.term, u(cp));
            // the second form of the charset element (other encoder arm): LO and LT, explicit VR LE only
            if ts == TS4[1] && matches!(vr, "LO" | "LT") && matches!(shape, "single" | "two" | "with-backslash") {
                cases.push(DsCase { form: "strs1", all_readers, si, vr, shape, values: values.clone(), rep: set.class(cp), has5c, ts, id: format!("{id}/strs1") });
            }
            cases.push(DsCase { form: "str", all_readers, si, vr, shape, values, rep: set.class(cp), has5c, ts, id });
        };
        for cp in &chars {
            for ts in &tss {
                for vr in MULTI_VRS {
                    for shape in ["single", "embedded", "two", "two-embedded"] {
                        mk(*cp, vr, shape, ts, true, &mut cases);
                    }
                }
                for vr in TEXT_VRS {
                    for shape in ["single", "embedded", "with-backslash"] {
                        mk(*cp, vr, shape, ts, true, &mut cases);
                    }
                }
            }
        }
        for cp in thorough_all {
            if chars.contains(&cp) {
                continue;
            }
            for vr in ["LO", "PN"] {
                for shape in ["single", "two"] {
                    mk(cp, vr, shape, TS4[1], false, &mut cases);
                }
            }
        }
        *per_set[si].lock().unwrap() = cases;
    });
    let cases: Vec<DsCase> = per_set.into_iter().flat_map(|m| m.into_inner().unwrap()).collect();
    phase(&t_start, "dataset-gen");
    check.extra("dataset_cases", json!(cases.len()));
    check.par_range(cases.len() as u64, |l, i| dataset_case(l, &sets, &cases[i as usize]));

    phase(&t_start, "dataset-run");
    check.extra("reader_cpu_seconds", json!(READERS.iter().zip(TIMES.iter()).map(|(r, t)| (r.to_string(), json!(t.load(std::sync::atomic::Ordering::Relaxed) as f64 / 1e9))).collect::<serde_json::Map<_, _>>()));
    // restricted VRs
    let restricted: [(&'static str, &str); 9] =
        [("CS", "AB"), ("AE", "AET"), ("UI", "1.2.3"), ("DA", "20200101"), ("IS", "12"), ("AS", "012Y"), ("DS", "1.5"), ("TM", "1230"), ("DT", "2020")];
    {
        let mut l = check.local();
        for set in &sets {
            for (vr, val) in restricted {
                for ts in &tss {
                    restricted_case(&mut l, set, vr, val, ts);
                }
            }
        }
    }
    check.finish();
}
