//! C06 — lazy reader and collector agree with the eager reader.
//!
//! For every data set of the universe, every uncompressed transfer syntax and every file source
//! (written by dicom-rs `write_all`; encoded by vx-ref with every explicit/undefined length shape):
//!   tokens   eager `DataSetReader` vs `LazyDataSetReader` (`advance` + `into_owned`), and both
//!            against the token skeleton derived from the reference tree
//!   whole    `from_reader` / `open_file` vs `DicomCollector` (`read_file_meta`, `read_dataset_to_end`)
//!   split    `read_dataset_up_to(s1)`, `read_dataset_up_to(s2)`, `read_dataset_to_end` for every
//!            subset of size <= 2 of {top-level tags, tag-1, tag+1}
//!   frags    `read_basic_offset_table` + `read_next_fragment`*, `read_next_fragment`* alone, both
//!            also after `read_dataset_up_to_pixeldata`
//!   stop     `OpenFileOptions::read_until(t)` / `read_to(t)` for every t of the same tag set,
//!            from a byte source and by path
use dicom_core::header::Header;
use dicom_core::value::Value;
use dicom_core::Tag;
use dicom_object::collector::DicomCollector;
use dicom_object::{from_reader, open_file, FileMetaTable, FileMetaTableBuilder, InMemDicomObject, OpenFileOptions};
use dicom_parser::dataset::lazy_read::LazyDataSetReader;
use dicom_parser::dataset::read::DataSetReader;
use dicom_parser::dataset::DataToken;
use std::io::{BufReader, Cursor};
use std::path::{Path, PathBuf};
use std::sync::atomic::{AtomicU64, Ordering};
use vx_data::rt::describe;
use vx_data::*;
use vx_kit::gen::subsets_up_to;
use vx_kit::{guard, json, Check, Level, Local};
use vx_ref::ds::{self as rds, RElem, RItem, RVal, Ts};

const SOP_CLASS: &str = "1.2.840.10008.5.1.4.1.1.7";
const SOP_INST: &str = "1.2.826.0.1.3680043.2.1143.515";
const PIXEL: (u16, u16) = (0x7FE0, 0x0010);

fn short<E: std::fmt::Debug>(e: E) -> String {
    format!("{e:?}").chars().take(300).collect()
}

fn with(base: &serde_json::Value, extra: serde_json::Value) -> serde_json::Value {
    let mut m = base.as_object().unwrap().clone();
    for (k, v) in extra.as_object().unwrap() {
        m.insert(k.clone(), v.clone());
    }
    serde_json::Value::Object(m)
}

/// canonical form without recorded-length flags (DESIGN 2.3: recorded lengths are not compared)
fn strip(v: Vec<RElem>) -> Vec<RElem> {
    v.into_iter()
        .map(|e| RElem {
            tag: e.tag,
            vr: e.vr,
            val: match e.val {
                RVal::Seq { items, .. } => RVal::Seq { items: items.into_iter().map(|i| RItem { elems: strip(i.elems), explicit: false }).collect(), explicit: false },
                v => v,
            },
        })
        .collect()
}
fn scanon(o: &InMemDicomObject) -> Vec<RElem> {
    strip(canon(o))
}

fn tagnum(t: (u16, u16)) -> u32 {
    ((t.0 as u32) << 16) | t.1 as u32
}
fn numtag(n: u32) -> (u16, u16) {
    ((n >> 16) as u16, n as u16)
}
fn tg(t: (u16, u16)) -> Tag {
    Tag(t.0, t.1)
}
fn tstr(t: (u16, u16)) -> String {
    format!("{:04X}{:04X}", t.0, t.1)
}

/// stop tag candidates: every top-level tag, the tag just below and the tag just above
fn stop_candidates(top: &[(u16, u16)]) -> Vec<(u16, u16)> {
    let mut v: Vec<u32> = vec![];
    for t in top {
        let n = tagnum(*t);
        v.push(n);
        v.push(n.saturating_sub(1));
        v.push(n.saturating_add(1));
    }
    v.sort();
    v.dedup();
    v.into_iter().map(numtag).collect()
}

// ---------------------------------------------------------------------------------------------
// token skeletons
// ---------------------------------------------------------------------------------------------

fn len_s(l: dicom_core::Length) -> String {
    match l.get() {
        Some(n) => n.to_string(),
        None => "u".into(),
    }
}

fn tok_skel(t: &DataToken) -> String {
    match t {
        DataToken::ElementHeader(h) => format!("H{}:{}", tstr((h.tag.0, h.tag.1)), len_s(h.len)),
        DataToken::PrimitiveValue(_) => "V".into(),
        DataToken::SequenceStart { tag, len } => format!("S{}:{}", tstr((tag.0, tag.1)), len_s(*len)),
        DataToken::PixelSequenceStart => "P".into(),
        DataToken::SequenceEnd => "SE".into(),
        DataToken::ItemStart { len } => format!("I:{}", len_s(*len)),
        DataToken::ItemEnd => "IE".into(),
        DataToken::ItemValue(b) => format!("IV:{}", hex(b)),
        DataToken::OffsetTable(v) => format!("OT:{v:?}"),
    }
}

fn ref_skel(ts: Ts, elems: &[RElem], out: &mut Vec<String>) {
    for e in elems {
        match &e.val {
            RVal::Prim(b) => {
                out.push(format!("H{}:{}", tstr(e.tag), rds::wire_value(ts, e.vr, b).len()));
                out.push("V".into());
            }
            RVal::Seq { items, explicit } => {
                let whole = rds::encode_items(ts, std::slice::from_ref(e));
                let l = if *explicit { (whole.len() - rds::header_size(ts, *b"SQ")).to_string() } else { "u".into() };
                out.push(format!("S{}:{l}", tstr(e.tag)));
                for it in items {
                    let l = if it.explicit { rds::encode_items(ts, &it.elems).len().to_string() } else { "u".into() };
                    out.push(format!("I:{l}"));
                    ref_skel(ts, &it.elems, out);
                    out.push("IE".into());
                }
                out.push("SE".into());
            }
            RVal::Pix { offsets, frags } => {
                out.push("P".into());
                out.push(format!("I:{}", offsets.len() * 4));
                if !offsets.is_empty() {
                    out.push(format!("OT:{offsets:?}"));
                }
                out.push("IE".into());
                for f in frags {
                    let mut f = f.clone();
                    if f.len() % 2 == 1 {
                        f.push(0);
                    }
                    out.push(format!("I:{}", f.len()));
                    if !f.is_empty() {
                        out.push(format!("IV:{}", hex(&f)));
                    }
                    out.push("IE".into());
                }
                out.push("SE".into());
            }
        }
    }
}

fn eager_tokens(ds: &[u8], uid: &str) -> Result<Vec<DataToken>, String> {
    let rd = DataSetReader::new_with_ts(ds, ts_by_uid(uid)).map_err(short)?;
    let mut out = vec![];
    for t in rd {
        out.push(t.map_err(|e| format!("after {} tokens: {}", out.len(), short(e)))?);
    }
    Ok(out)
}

fn lazy_tokens(ds: &[u8], uid: &str) -> Result<Vec<DataToken>, String> {
    let mut rd = LazyDataSetReader::new_with_ts(Cursor::new(ds), ts_by_uid(uid)).map_err(short)?;
    let mut out = vec![];
    while let Some(t) = rd.advance() {
        let t = t.map_err(|e| format!("after {} tokens: {}", out.len(), short(e)))?;
        out.push(t.into_owned().map_err(|e| format!("into_owned after {} tokens: {}", out.len(), short(e)))?);
    }
    Ok(out)
}

/// the one documented representation difference: eager `OffsetTable(v)` == lazy item value with
/// the bytes of v as they are in the stream
fn normalise_eager(tokens: &[DataToken], big: bool) -> Vec<DataToken> {
    tokens
        .iter()
        .map(|t| match t {
            DataToken::OffsetTable(v) => DataToken::ItemValue(v.iter().flat_map(|x| if big { x.to_be_bytes() } else { x.to_le_bytes() }).collect()),
            t => t.clone(),
        })
        .collect()
}

// ---------------------------------------------------------------------------------------------
// file cases
// ---------------------------------------------------------------------------------------------

struct FileCase {
    src: &'static str,
    mask: u32,
    ti: usize,
    bytes: Vec<u8>,
    ds_off: usize,
    group_length: u32,
    /// reference tree (top level) of the data set
    expected: Vec<RElem>,
    /// false when the reference comparison does not apply (implicit VR, private sequence with a
    /// defined length is an opaque UN value by design)
    ref_ok: bool,
}

fn masks_for(nc: u32, thorough: bool) -> Vec<u32> {
    if nc == 0 {
        return vec![0];
    }
    let full = if nc >= 32 { u32::MAX } else { (1u32 << nc) - 1 };
    if nc <= 2 || (thorough && nc <= 5) {
        (0..=full).collect()
    } else {
        let mut v = vec![0, full, 0x5555_5555 & full, 0xAAAA_AAAA & full];
        v.sort();
        v.dedup();
        v
    }
}

struct Env<'a> {
    dict: &'a Dict,
    scratch: &'a Path,
    counter: &'a AtomicU64,
    thorough: bool,
}

struct TempFile(PathBuf);
impl Drop for TempFile {
    fn drop(&mut self) {
        let _ = std::fs::remove_file(&self.0);
    }
}

fn meta_ok(m: &FileMetaTable, fc: &FileCase) -> Result<(), String> {
    if m.transfer_syntax() != TS4[fc.ti] {
        return Err(format!("transfer syntax {:?}", m.transfer_syntax()));
    }
    if m.media_storage_sop_class_uid() != SOP_CLASS || m.media_storage_sop_instance_uid() != SOP_INST {
        return Err(format!("sop class/instance {:?} {:?}", m.media_storage_sop_class_uid(), m.media_storage_sop_instance_uid()));
    }
    if m.information_group_length != fc.group_length {
        return Err(format!("group length {} but the file says {}", m.information_group_length, fc.group_length));
    }
    Ok(())
}

/// expected elements in [lo, hi) of a canonical top-level list
fn part(all: &[RElem], lo: Option<(u16, u16)>, hi: Option<(u16, u16)>) -> Vec<RElem> {
    all.iter().filter(|e| lo.map(|l| e.tag >= l).unwrap_or(true) && hi.map(|h| e.tag < h).unwrap_or(true)).cloned().collect()
}

fn tags_of(v: &[RElem]) -> String {
    v.iter().map(|e| tstr(e.tag)).collect::<Vec<_>>().join(",")
}

/// Compare a collected/stopped portion with (a) the same range of the fully opened object and
/// (b) the same range of the reference tree.
fn portion_ok(env: &Env, fc: &FileCase, got: &InMemDicomObject, full: &[RElem], lo: Option<(u16, u16)>, hi: Option<(u16, u16)>) -> Result<(), String> {
    let want = part(full, lo, hi);
    let g = scanon(got);
    if g != want {
        return Err(format!("portion [{:?},{:?}) has tags [{}], the opened object has [{}] there{}", lo.map(tstr), hi.map(tstr), tags_of(&g), tags_of(&want), if tags_of(&g) == tags_of(&want) { " (values differ)" } else { "" }));
    }
    if fc.ref_ok {
        let want_ref = part(&fc.expected, lo, hi);
        let mode = if fc.ti == 0 { VrMode::Implicit } else { VrMode::Explicit };
        compare(&want_ref, &canon(got), mode, env.dict, false).map_err(|m| format!("vs reference: {m}"))?;
    }
    Ok(())
}

type Coll<'a> = DicomCollector<BufReader<Cursor<&'a [u8]>>>;

fn new_collector(bytes: &[u8]) -> Coll<'_> {
    DicomCollector::new(BufReader::new(Cursor::new(bytes)))
}

/// run `read_next_fragment` until `None`; at most `cap` calls
fn drain_fragments(c: &mut Coll<'_>, cap: usize) -> Result<Vec<(u32, Vec<u8>)>, String> {
    let mut out = vec![];
    loop {
        let mut buf = vec![];
        match c.read_next_fragment(&mut buf).map_err(|e| format!("read_next_fragment #{}: {}", out.len(), short(e)))? {
            None => return Ok(out),
            Some(n) => out.push((n, buf)),
        }
        if out.len() > cap {
            return Err(format!("read_next_fragment still returns data after {cap} calls"));
        }
    }
}

enum PixKind {
    None,
    Native(Vec<u8>),
    Encapsulated { offsets: Vec<u32>, frags: Vec<Vec<u8>> },
}

fn run_file(l: &mut Local, env: &Env, idx: usize, nodes: &[Node], desc: &serde_json::Value, fc: &FileCase) {
    let uid = TS4[fc.ti];
    let rts = ref_ts(fc.ti);
    let prefix = format!("ds{idx}/{}{}/ts{}", fc.src, fc.mask, fc.ti);
    let base = with(desc, json!({"src": fc.src, "ts": uid, "explicit_lengths": fc.mask != 0}));
    let ds = &fc.bytes[fc.ds_off..];
    let detail = |m: String| json!({"dataset": labels(nodes), "mask": fc.mask, "file_dataset_part": hex(&ds[..ds.len().min(200)]), "message": m});
    let top: Vec<(u16, u16)> = fc.expected.iter().map(|e| e.tag).collect();

    // ------------------------------------------------------------------ tokens
    let case_id = format!("{prefix}/tokens");
    if l.want(&case_id) {
        l.eval();
        l.nontrivial(&case_id);
        let cls = |kind: &str| with(&base, json!({"family": "tokens", "entry": "DataSetReader|LazyDataSetReader", "kind": kind}));
        match (guard(|| eager_tokens(ds, uid)), guard(|| lazy_tokens(ds, uid))) {
            (Err(p), _) => {
                l.outcome("tokens-eager-panic");
                l.fail(&case_id, cls("eager-panic"), detail(p));
            }
            (_, Err(p)) => {
                l.outcome("tokens-lazy-panic");
                l.fail(&case_id, cls("lazy-panic"), detail(p));
            }
            (Ok(Err(e)), _) => {
                l.outcome("tokens-eager-err");
                l.fail(&case_id, cls("eager-err"), detail(e));
            }
            (Ok(Ok(_)), Ok(Err(e))) => {
                l.outcome("tokens-lazy-err");
                l.fail(&case_id, cls("lazy-err"), detail(e));
            }
            (Ok(Ok(eager)), Ok(Ok(lazy))) => {
                let en = normalise_eager(&eager, rts.big());
                let mut bad = None;
                if en.len() != lazy.len() {
                    bad = Some(format!("eager yields {} tokens, lazy {}: eager [{}] lazy [{}]", en.len(), lazy.len(), eager.iter().map(tok_skel).collect::<Vec<_>>().join(" "), lazy.iter().map(tok_skel).collect::<Vec<_>>().join(" ")));
                } else if let Some(i) = (0..en.len()).find(|&i| en[i] != lazy[i]) {
                    bad = Some(format!("token {i}: eager {:?} lazy {:?}", en[i], lazy[i]));
                }
                if let Some(m) = bad {
                    l.outcome("tokens-differ");
                    l.fail(&case_id, cls("lazy-differs-from-eager"), detail(m));
                } else if fc.ref_ok {
                    let mut want = vec![];
                    ref_skel(rts, &fc.expected, &mut want);
                    let got: Vec<String> = eager.iter().map(tok_skel).collect();
                    if want != got {
                        l.outcome("tokens-differ-from-reference");
                        l.fail(&case_id, cls("both-differ-from-reference"), detail(format!("reference skeleton [{}] readers [{}]", want.join(" "), got.join(" "))));
                    } else if eager.iter().any(|t| matches!(t, DataToken::OffsetTable(_))) {
                        l.outcome_with("tokens-equal-offset-table-as-item-value", || json!({"case": case_id, "tokens": got.join(" ")}));
                    } else {
                        l.outcome_with("tokens-equal", || json!({"case": case_id, "tokens": got.join(" ")}));
                    }
                } else {
                    l.outcome("tokens-equal-opaque-private-sequence");
                }
            }
        }
    }

    // ------------------------------------------------------------------ the fully opened object
    let full_obj = match guard(|| from_reader(&fc.bytes[..])) {
        Ok(Ok(o)) => o,
        other => {
            let case_id = format!("{prefix}/open");
            if l.want(&case_id) {
                l.eval();
                l.outcome("open-failed");
                let m = match other {
                    Err(p) => format!("panic: {p}"),
                    Ok(Err(e)) => short(e),
                    _ => unreachable!(),
                };
                l.fail(&case_id, with(&base, json!({"family": "whole", "entry": "from_reader", "kind": "open-failed"})), detail(m));
            }
            return;
        }
    };
    let full: Vec<RElem> = scanon(&full_obj);
    {
        // the opened object itself against the reference (C01's subject; here it anchors the oracle)
        let case_id = format!("{prefix}/open");
        if l.want(&case_id) {
            l.eval();
            let mut r = meta_ok(full_obj.meta(), fc);
            if r.is_ok() && fc.ref_ok {
                let mode = if fc.ti == 0 { VrMode::Implicit } else { VrMode::Explicit };
                r = compare(&fc.expected, &canon(&full_obj), mode, env.dict, false);
            }
            match r {
                Ok(()) => l.outcome("opened-equals-reference"),
                Err(m) => {
                    l.outcome("opened-differs-from-reference");
                    l.fail(&case_id, with(&base, json!({"family": "whole", "entry": "from_reader", "kind": "differs-from-reference"})), detail(m));
                }
            }
        }
    }
    let pix: PixKind = match full_obj.get(tg(PIXEL)).map(|e| e.value()) {
        None => PixKind::None,
        Some(Value::PixelSequence(p)) => PixKind::Encapsulated { offsets: p.offset_table().to_vec(), frags: p.fragments().iter().map(|f| f.to_vec()).collect() },
        Some(Value::Primitive(_)) => {
            // native pixel data: the value bytes as they are in the stream
            let e = fc.expected.iter().find(|e| e.tag == PIXEL).unwrap();
            match &e.val {
                RVal::Prim(b) => PixKind::Native(rds::wire_value(rts, e.vr, b)),
                _ => PixKind::None,
            }
        }
        Some(_) => PixKind::None,
    };

    // ------------------------------------------------------------------ whole, from memory and by path
    let by_path = fc.src == "rs" || fc.mask == 0 || env.thorough;
    let path = env.scratch.join(format!("f{}.dcm", env.counter.fetch_add(1, Ordering::Relaxed)));
    let tmp = TempFile(path.clone());
    if by_path {
        if let Err(e) = std::fs::write(&path, &fc.bytes) {
            l.check.machinery_error(&format!("cannot write scratch file: {e}"));
            return;
        }
    }
    for how in ["mem", "path"] {
        if how == "path" && !by_path {
            continue;
        }
        let case_id = format!("{prefix}/whole/{how}");
        if !l.want(&case_id) {
            continue;
        }
        l.eval();
        l.nontrivial(&case_id);
        let cls = |entry: &str, kind: &str| with(&base, json!({"family": "whole", "entry": entry, "how": how, "kind": kind}));
        let r = guard(|| -> Result<(FileMetaTable, InMemDicomObject, Option<dicom_object::DefaultDicomObject>), String> {
            let mut dset = InMemDicomObject::new_empty();
            if how == "mem" {
                let mut c = new_collector(&fc.bytes);
                let m = c.read_file_meta().map_err(|e| format!("read_file_meta: {}", short(e)))?.clone();
                c.read_dataset_to_end(&mut dset).map_err(|e| format!("read_dataset_to_end: {}", short(e)))?;
                Ok((m, dset, None))
            } else {
                let opened = open_file(&path).map_err(|e| format!("open_file: {}", short(e)))?;
                let mut c = DicomCollector::open_file(&path).map_err(|e| format!("collector open_file: {}", short(e)))?;
                let m = c.read_file_meta().map_err(|e| format!("read_file_meta: {}", short(e)))?.clone();
                c.read_dataset_to_end(&mut dset).map_err(|e| format!("read_dataset_to_end: {}", short(e)))?;
                Ok((m, dset, Some(opened)))
            }
        });
        match r {
            Err(p) => {
                l.outcome("whole-panic");
                l.fail(&case_id, cls("collector", "panic"), detail(p));
            }
            Ok(Err(e)) => {
                l.outcome("whole-err");
                l.fail(&case_id, cls("collector", "err"), detail(e));
            }
            Ok(Ok((m, dset, opened))) => {
                let mut bad: Option<(&str, &str, String)> = None;
                if let Some(o) = &opened {
                    if o.meta() != full_obj.meta() || scanon(o) != full {
                        bad = Some(("open_file", "open_file-differs-from-from_reader", format!("open_file tags [{}] from_reader [{}]", tags_of(&scanon(o)), tags_of(&full))));
                    }
                }
                if bad.is_none() && &m != full_obj.meta() {
                    bad = Some(("read_file_meta", "meta-differs", format!("collector meta {m:?} opened meta {:?}", full_obj.meta())));
                }
                if bad.is_none() {
                    if let Err(e) = meta_ok(&m, fc) {
                        bad = Some(("read_file_meta", "meta-differs-from-file", e));
                    }
                }
                if bad.is_none() {
                    if let Err(e) = portion_ok(env, fc, &dset, &full, None, None) {
                        bad = Some(("read_dataset_to_end", "elements-differ", e));
                    }
                }
                match bad {
                    None => l.outcome_with(if how == "mem" { "whole-equal-from-memory" } else { "whole-equal-by-path" }, || json!({"case": case_id, "tags": tags_of(&full)})),
                    Some((entry, kind, m)) => {
                        l.outcome("whole-differs");
                        l.fail(&case_id, cls(entry, kind), detail(m));
                    }
                }
            }
        }
    }

    // ------------------------------------------------------------------ splits
    let cands = stop_candidates(&top);
    for sub in subsets_up_to(cands.len(), 2) {
        if sub.is_empty() {
            continue;
        }
        let stops: Vec<(u16, u16)> = sub.iter().map(|&i| cands[i]).collect();
        for union in [false, true] {
            if union && stops.len() != 1 {
                continue;
            }
            let case_id = format!("{prefix}/split/{}{}", stops.iter().map(|t| tstr(*t)).collect::<Vec<_>>().join("-"), if union { "/union" } else { "" });
            if !l.want(&case_id) {
                continue;
            }
            l.eval();
            let stop_pos: Vec<&str> = stops
                .iter()
                .map(|s| if top.contains(s) { if *s == PIXEL { "at-pixel-data" } else { "at-element" } } else if top.iter().all(|t| t < s) { "past-end" } else if top.iter().all(|t| t > s) { "before-first" } else { "between" })
                .collect();
            let cls = |entry: &str, kind: &str| with(&base, json!({"family": "split", "entry": entry, "kind": kind, "stops": stops.len(), "stop_pos": stop_pos.join("+"), "union": union}));
            let r = guard(|| -> Result<Vec<InMemDicomObject>, String> {
                let mut c = new_collector(&fc.bytes);
                c.read_file_meta().map_err(|e| format!("read_file_meta: {}", short(e)))?;
                let mut parts = vec![];
                if union {
                    let mut o = InMemDicomObject::new_empty();
                    c.read_dataset_up_to(tg(stops[0]), &mut o).map_err(|e| format!("read_dataset_up_to({}): {}", tstr(stops[0]), short(e)))?;
                    c.read_dataset_to_end(&mut o).map_err(|e| format!("read_dataset_to_end: {}", short(e)))?;
                    parts.push(o);
                } else {
                    for s in &stops {
                        let mut o = InMemDicomObject::new_empty();
                        c.read_dataset_up_to(tg(*s), &mut o).map_err(|e| format!("read_dataset_up_to({}): {}", tstr(*s), short(e)))?;
                        parts.push(o);
                    }
                    let mut o = InMemDicomObject::new_empty();
                    c.read_dataset_to_end(&mut o).map_err(|e| format!("read_dataset_to_end: {}", short(e)))?;
                    parts.push(o);
                }
                Ok(parts)
            });
            match r {
                Err(p) => {
                    l.outcome("split-panic");
                    l.fail(&case_id, cls("collector", "panic"), detail(p));
                }
                Ok(Err(e)) => {
                    l.outcome("split-err");
                    l.fail(&case_id, cls("collector", "err"), detail(e));
                }
                Ok(Ok(parts)) => {
                    let mut bad = None;
                    if union {
                        if let Err(e) = portion_ok(env, fc, &parts[0], &full, None, None) {
                            bad = Some(("read_dataset_up_to+read_dataset_to_end", e));
                        }
                    } else {
                        let mut lo = None;
                        for (k, o) in parts.iter().enumerate() {
                            let hi = stops.get(k).copied();
                            if let Err(e) = portion_ok(env, fc, o, &full, lo, hi) {
                                bad = Some((if hi.is_some() { "read_dataset_up_to" } else { "read_dataset_to_end" }, format!("portion {k}: {e}")));
                                break;
                            }
                            lo = hi;
                        }
                    }
                    match bad {
                        None => {
                            // non-trivial: the split really divides the elements
                            let nonempty = parts.iter().filter(|o| o.iter().next().is_some()).count();
                            if nonempty >= 2 {
                                l.nontrivial(&case_id);
                                l.outcome_with("split-equal-elements-divided", || json!({"case": case_id, "portions": parts.iter().map(|o| tags_of(&scanon(o))).collect::<Vec<_>>()}));
                            } else {
                                l.outcome("split-equal-all-in-one-portion");
                            }
                        }
                        Some((entry, m)) => {
                            l.outcome("split-differs");
                            l.fail(&case_id, cls(entry, "elements-differ"), detail(format!("stops {:?}: {m}", stops.iter().map(|t| tstr(*t)).collect::<Vec<_>>())));
                        }
                    }
                }
            }
        }
    }

    // ------------------------------------------------------------------ fragments
    for mode in ["bot+frags", "frags", "upto+bot+frags", "upto+frags", "past+frags", "toend+frags"] {
        let case_id = format!("{prefix}/frags/{mode}");
        if !l.want(&case_id) {
            continue;
        }
        l.eval();
        let pixkind = match &pix {
            PixKind::None => "none",
            PixKind::Native(_) => "native",
            PixKind::Encapsulated { .. } => "encapsulated",
        };
        let cls = |entry: &str, kind: &str| with(&base, json!({"family": "frags", "entry": entry, "kind": kind, "mode": mode, "pixel": pixkind}));
        #[allow(clippy::type_complexity)]
        let r = guard(|| -> Result<(Option<InMemDicomObject>, Option<(Option<u32>, Vec<u32>)>, Vec<(u32, Vec<u8>)>), String> {
            let mut c = new_collector(&fc.bytes);
            c.read_file_meta().map_err(|e| format!("read_file_meta: {}", short(e)))?;
            let mut before = None;
            if mode.starts_with("upto") {
                let mut o = InMemDicomObject::new_empty();
                c.read_dataset_up_to_pixeldata(&mut o).map_err(|e| format!("read_dataset_up_to_pixeldata: {}", short(e)))?;
                before = Some(o);
            }
            if mode.starts_with("past") {
                // stop just after the pixel data: the pixel data element is collected, later elements are not
                let mut o = InMemDicomObject::new_empty();
                c.read_dataset_up_to(tg((0x7FE0, 0x0011)), &mut o).map_err(|e| format!("read_dataset_up_to(7FE00011): {}", short(e)))?;
                before = Some(o);
            }
            if mode.starts_with("toend") {
                let mut o = InMemDicomObject::new_empty();
                c.read_dataset_to_end(&mut o).map_err(|e| format!("read_dataset_to_end: {}", short(e)))?;
                before = Some(o);
            }
            let mut bot = None;
            if mode.contains("bot") {
                let mut v = vec![];
                let n = c.read_basic_offset_table(&mut v).map_err(|e| format!("read_basic_offset_table: {}", short(e)))?;
                bot = Some((n, v));
            }
            let frags = drain_fragments(&mut c, 16)?;
            Ok((before, bot, frags))
        });
        match r {
            Err(p) => {
                l.outcome("frags-panic");
                l.fail(&case_id, cls("collector", "panic"), detail(p));
            }
            Ok(Err(e)) => {
                l.outcome("frags-err");
                let entry = e.split(':').next().unwrap_or("collector").split(' ').next().unwrap_or("collector").to_string();
                l.fail(&case_id, cls(&entry, "err"), detail(e));
            }
            Ok(Ok((before, bot, got))) => {
                let mut bad: Option<(&str, &str, String)> = None;
                if let Some(o) = &before {
                    let hi = if mode.starts_with("upto") { Some(PIXEL) } else if mode.starts_with("past") { Some((0x7FE0, 0x0011)) } else { None };
                    if let Err(e) = portion_ok(env, fc, o, &full, None, hi) {
                        bad = Some((if mode.starts_with("upto") { "read_dataset_up_to_pixeldata" } else if hi.is_some() { "read_dataset_up_to" } else { "read_dataset_to_end" }, "elements-differ", e));
                    }
                }
                // expected fragment list
                let (want_bot, want_frags): (Option<(Option<u32>, Vec<u32>)>, Vec<Vec<Vec<u8>>>) = if mode.starts_with("toend") || mode.starts_with("past") {
                    // the pixel data was collected into the object: no fragment is left to retrieve
                    (None, vec![])
                } else {
                    match &pix {
                        PixKind::None => (Some((None, vec![])), vec![]),
                        PixKind::Native(b) => (Some((None, vec![])), vec![vec![b.clone()]]),
                        PixKind::Encapsulated { offsets, frags } => {
                            let mut w: Vec<Vec<Vec<u8>>> = vec![];
                            if !mode.contains("bot") {
                                // the offset table first, as bytes (little endian as documented; in the big
                                // endian syntax the bytes of the stream are accepted as well)
                                let le: Vec<u8> = offsets.iter().flat_map(|x| x.to_le_bytes()).collect();
                                let be: Vec<u8> = offsets.iter().flat_map(|x| x.to_be_bytes()).collect();
                                w.push(if rts.big() { vec![le, be] } else { vec![le] });
                            }
                            for f in frags {
                                w.push(vec![f.clone()]);
                            }
                            (Some((Some((offsets.len() * 4) as u32), offsets.clone())), w)
                        }
                    }
                };
                if bad.is_none() {
                    if let (Some(b), Some(w)) = (&bot, &want_bot) {
                        if b != w {
                            bad = Some(("read_basic_offset_table", "offset-table-differs", format!("read_basic_offset_table gave {b:?}, the opened object has {w:?}")));
                        }
                    }
                }
                if bad.is_none() {
                    let gl: Vec<String> = got.iter().map(|(n, b)| format!("{n}:{}", hex(b))).collect();
                    let wl: Vec<String> = want_frags.iter().map(|alts| hex(&alts[0])).collect();
                    if got.len() != want_frags.len() {
                        let kind = if got.len() > want_frags.len() { "extra-fragments" } else { "missing-fragments" };
                        bad = Some(("read_next_fragment", kind, format!("read_next_fragment gave {} values [{}], expected {} [{}]", got.len(), gl.join(" "), want_frags.len(), wl.join(" "))));
                    } else {
                        for (k, ((n, b), alts)) in got.iter().zip(&want_frags).enumerate() {
                            if !alts.iter().any(|a| a == b) || *n as usize != b.len() {
                                bad = Some(("read_next_fragment", "fragment-differs", format!("value {k}: got len {n} bytes {}, expected {}", hex(b), hex(&alts[0]))));
                                break;
                            }
                        }
                    }
                }
                match bad {
                    None => {
                        if !got.is_empty() || bot.as_ref().map(|b| b.0.is_some()).unwrap_or(false) {
                            l.nontrivial(&case_id);
                        }
                        let oc = match (&pix, mode.starts_with("toend") || mode.starts_with("past")) {
                            (_, true) => "frags-none-left-after-pixel-data-collected",
                            (PixKind::None, _) => "frags-no-pixel-data",
                            (PixKind::Native(_), _) => "frags-native-single-fragment",
                            (PixKind::Encapsulated { .. }, _) => "frags-equal",
                        };
                        l.outcome_with(oc, || json!({"case": case_id, "values": got.iter().map(|(n, b)| format!("{n}:{}", hex(b))).collect::<Vec<_>>(), "offset_table": format!("{bot:?}")}));
                    }
                    Some((entry, kind, m)) => {
                        l.outcome("frags-differ");
                        l.fail(&case_id, cls(entry, kind), detail(m));
                    }
                }
            }
        }
    }

    // ------------------------------------------------------------------ read_until / read_to
    for t in &cands {
        for opt in ["read_until", "read_to"] {
            for how in ["mem", "path"] {
                if how == "path" && !by_path {
                    continue;
                }
                let case_id = format!("{prefix}/stop/{opt}/{}/{how}", tstr(*t));
                if !l.want(&case_id) {
                    continue;
                }
                l.eval();
                let pos = if top.contains(t) { if *t == PIXEL { "at-pixel-data" } else { "at-element" } } else if top.iter().all(|x| x < t) { "past-end" } else if top.iter().all(|x| x > t) { "before-first" } else { "between" };
                let cls = |kind: &str| with(&base, json!({"family": "stop", "entry": format!("OpenFileOptions::{opt}"), "how": how, "kind": kind, "stop_pos": pos}));
                let r = guard(|| {
                    let o = OpenFileOptions::new();
                    let o = if opt == "read_until" { o.read_until(tg(*t)) } else { o.read_to(tg(*t)) };
                    if how == "mem" {
                        o.from_reader(&fc.bytes[..]).map_err(short)
                    } else {
                        o.open_file(&path).map_err(short)
                    }
                });
                match r {
                    Err(p) => {
                        l.outcome("stop-panic");
                        l.fail(&case_id, cls("panic"), detail(p));
                    }
                    Ok(Err(e)) => {
                        l.outcome("stop-err");
                        l.fail(&case_id, cls("err"), detail(e));
                    }
                    Ok(Ok(o)) => {
                        // read_until(t): elements < t; read_to(t): elements <= t, i.e. < t+1
                        let hi = if opt == "read_until" { Some(*t) } else { tagnum(*t).checked_add(1).map(numtag) };
                        let mut r = portion_ok(env, fc, &o, &full, None, hi);
                        if r.is_ok() && o.meta() != full_obj.meta() {
                            r = Err("meta differs from the fully opened file".into());
                        }
                        match r {
                            Ok(()) => {
                                let n = o.iter().count();
                                if n > 0 && n < full.len() {
                                    l.nontrivial(&case_id);
                                    l.outcome_with(if opt == "read_until" { "read_until-exact-proper-prefix" } else { "read_to-exact-proper-prefix" }, || json!({"case": case_id, "kept": tags_of(&scanon(&o)), "all": tags_of(&full)}));
                                } else if n == 0 {
                                    l.outcome("stop-exact-nothing-read");
                                } else {
                                    l.outcome("stop-exact-everything-read");
                                }
                            }
                            Err(m) => {
                                l.outcome("stop-differs");
                                l.fail(&case_id, cls("elements-differ"), detail(format!("{opt}({}): {m}", tstr(*t))));
                            }
                        }
                    }
                }
            }
        }
    }
    drop(tmp);
    let _ = env.thorough;
}

fn build_files(l: &mut Local, env: &Env, idx: usize, nodes: &[Node], desc: &serde_json::Value) -> Vec<FileCase> {
    let mut out = vec![];
    let nc = count_containers(nodes);
    let private_sq = desc["tclasses"].as_str().unwrap().contains("private-sq");
    for ti in 0..3 {
        let uid = TS4[ti];
        // (1) written by dicom-rs
        let expected0 = to_ref(nodes, 0);
        let written = guard(|| {
            let meta = FileMetaTableBuilder::new().transfer_syntax(uid).media_storage_sop_class_uid(SOP_CLASS).media_storage_sop_instance_uid(SOP_INST).build().map_err(short)?;
            let f = to_obj(nodes).with_exact_meta(meta);
            let mut v = vec![];
            f.write_all(&mut v).map_err(short)?;
            Ok::<_, String>(v)
        });
        match written {
            Ok(Ok(bytes)) => match rds::parse_file_head(&bytes) {
                Ok(h) => out.push(FileCase { src: "rs", mask: 0, ti, ds_off: h.dataset_offset, group_length: h.group_length, bytes, expected: expected0.clone(), ref_ok: true }),
                Err(e) => {
                    let case_id = format!("ds{idx}/rs0/ts{ti}/write");
                    if l.want(&case_id) {
                        l.eval();
                        l.outcome("written-file-head-invalid");
                        l.fail(&case_id, with(desc, json!({"family": "write", "src": "rs", "ts": uid, "kind": "file-head-invalid"})), json!({"dataset": labels(nodes), "message": e.to_string(), "head": hex(&bytes[..bytes.len().min(300)])}));
                    }
                }
            },
            other => {
                let case_id = format!("ds{idx}/rs0/ts{ti}/write");
                if l.want(&case_id) {
                    l.eval();
                    l.outcome("write-failed");
                    let m = match other {
                        Err(p) => format!("panic: {p}"),
                        Ok(Err(e)) => e,
                        _ => unreachable!(),
                    };
                    l.fail(&case_id, with(desc, json!({"family": "write", "src": "rs", "ts": uid, "kind": "write-failed"})), json!({"dataset": labels(nodes), "message": m}));
                }
            }
        }
        // (2) encoded by the reference encoder, every length shape
        for mask in masks_for(nc, env.thorough) {
            let expected = to_ref(nodes, mask);
            let bytes = rds::encode_file(true, &rds::std_meta(uid, SOP_CLASS, SOP_INST), ref_ts(ti), &expected);
            let h = rds::parse_file_head(&bytes).expect("reference file head");
            let ref_ok = !(ti == 0 && private_sq && mask != 0);
            out.push(FileCase { src: "ref", mask, ti, ds_off: h.dataset_offset, group_length: h.group_length, bytes, expected, ref_ok });
        }
    }
    out
}

fn main() {
    let check = Check::from_args("C06", Level::Exploration);
    check.set_rule("every data set of DS(1,0) ∪ DS_r(2,2) (thorough: + DS_r(3,2)), incl. every encapsulated pixel data variant (offset table empty/[0]/[0,n] x fragments none/even/odd/two/empty-then-data, alone, after an element, before a sequence), x 3 uncompressed transfer syntaxes x file source (dicom-rs write_all; reference encoder with every explicit/undefined length assignment of <= 2 containers, 4 assignments above that; thorough: every assignment of <= 5) x {token streams; whole file from memory and by path; every split by <= 2 stop tags out of {top-level tag, tag-1, tag+1}; 6 fragment retrieval modes; read_until/read_to at each of those tags from memory and (dicom-rs written and undefined-length reference files; thorough: all) by path}; a case is (file, test, parameters), distinct by case id; non-trivial = the code under test was run and (for splits/stops) really divided the elements");
    check.assume("vx-ref reference encoder/tree and the extracted dictionary are trusted; the fully opened object (from_reader) is additionally checked against the reference tree, so agreement with it is agreement with the reference");
    check.assume("encapsulated pixel data in Explicit VR Big Endian is outside the standard: the offset table returned as a fragment is accepted in either byte order there");
    let dict = Dict::load();
    let mut uni = ds1();
    uni.extend(ds_nested(2));
    if check.thorough() {
        uni.extend(ds_nested(3));
    }
    check.extra("universe_datasets", json!(uni.len()));
    let scratch = check.scratch_dir();
    let counter = AtomicU64::new(0);
    let files = AtomicU64::new(0);
    check.par_range(uni.len() as u64, |l, i| {
        let nodes = &uni[i as usize];
        let env = Env { dict: &dict, scratch: &scratch, counter: &counter, thorough: l.check.thorough() };
        let mut desc = describe(nodes);
        let bot = desc["pix"].as_str().unwrap().split('/').next().unwrap().to_string();
        desc.as_object_mut().unwrap().insert("pix_bot".into(), json!(bot));
        let fcs = build_files(l, &env, i as usize, nodes, &desc);
        files.fetch_add(fcs.len() as u64, Ordering::Relaxed);
        for fc in &fcs {
            run_file(l, &env, i as usize, nodes, &desc, fc);
        }
    });
    check.extra("files", json!(files.load(Ordering::Relaxed)));
    let _ = std::fs::remove_dir_all(&scratch);
    check.finish();
}
