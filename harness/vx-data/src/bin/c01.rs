//! C01 — write-then-read round trip in every writable transfer syntax.
use vx_data::rt::{run, Which};
use vx_kit::{Check, Level};
fn main() {
    let check = Check::from_args("C01", Level::Exploration);
    check.set_rule("every data set of DS(1,0) ∪ DS_r(2,2) (thorough: + DS(2,0) ∪ DS_r(3,2)) built through the API, and every explicit/undefined length shape of it read from a reference-encoded stream, × 4 transfer syntaxes × {write_dataset_with_ts, options SetUndefined, options NoChange}; a case is (data set, shape, ts, mode); distinct by case id; non-trivial = the write was attempted");
    check.assume("vx-ref encoder/parser (written from PS3.5) and the extracted dictionary table are the trusted base");
    run(Which::C01, &check);
    check.finish();
}
