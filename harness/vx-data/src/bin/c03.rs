//! C03 — element and item headers follow the PS3.5 7.1 wire layout.
//!
//! Codec level: the `Encode`/`Decode` implementations of dicom-encoding for Implicit VR LE,
//! Explicit VR LE and Explicit VR BE (concrete types and the type-erased ones handed out by
//! `TransferSyntax::encoder_for/decoder_for`), the adaptive LE decoder, and the VR code table of
//! dicom-core. Oracle: vx_ref::ds::{encode_header, header_size, encode_item_header, item_delim,
//! seq_delim} (written from PS3.5 7.1.1-7.1.3, 7.5) and the list of the 34 defined VR codes.
#[path = "../enc_amb.rs"]
mod enc_amb;

use dicom_core::header::{DataElementHeader, Header, Length, SequenceItemHeader};
use dicom_core::{Tag, VR};
use dicom_encoding::decode::adaptive_le::AdaptiveVRLittleEndianDecoder;
use dicom_encoding::decode::explicit_be::ExplicitVRBigEndianDecoder;
use dicom_encoding::decode::explicit_le::ExplicitVRLittleEndianDecoder;
use dicom_encoding::decode::implicit_le::ImplicitVRLittleEndianDecoder;
use dicom_encoding::decode::{Decode, DecodeFrom};
use dicom_encoding::encode::explicit_be::ExplicitVRBigEndianEncoder;
use dicom_encoding::encode::explicit_le::ExplicitVRLittleEndianEncoder;
use dicom_encoding::encode::implicit_le::ImplicitVRLittleEndianEncoder;
use dicom_encoding::encode::{Encode, EncodeTo};
use std::str::FromStr;
use vx_data::{std_tag, ts_by_uid, vr_code, Dict, TS4};
use vx_kit::{guard, json, Check, Level, Local};
use vx_ref::ds::{self as rds, Ts};

const LENGTHS: [u32; 9] = [0, 1, 2, 0xFFFE, 0xFFFF, 0x1_0000, 0x1_0001, 0xFFFF_FFFE, 0xFFFF_FFFF];

fn length_class(l: u32) -> &'static str {
    match l {
        0 => "zero",
        0xFFFF_FFFF => "undefined",
        l if l <= 0xFFFF => "fits16",
        _ => "over16",
    }
}

fn tag_class(t: (u16, u16)) -> &'static str {
    match t {
        (0xFFFE, _) => "item-or-delimiter",
        (0x0000, 0x0000) => "command-group-length",
        (0xFFFF, 0xFFFF) => "max-tag",
        (g, _) if g % 2 == 1 => "private",
        (0x7FE0, 0x0010) => "pixel-data",
        (0x0008, 0x0005) => "charset",
        _ => "std",
    }
}

fn ts_of(i: usize) -> Ts {
    Ts::ALL[i]
}
fn ts_name(i: usize) -> &'static str {
    ["implicit-le", "explicit-le", "explicit-be"][i]
}

/// general tags (non item) used for every VR, plus the VR's own standard tag
fn element_tags(vr: &str) -> Vec<(u16, u16)> {
    let mut t = vec![(0x0000, 0x0000), (0x0008, 0x0005), (0x7FE0, 0x0010), (0xFFFF, 0xFFFF), (0x0009, 0x1001), (0x0102, 0x0304)];
    let s = std_tag(vr);
    if !t.contains(&s) {
        t.push(s);
    }
    t
}

// ------------------------------------------------------------------------------------------------
// subjects
// ------------------------------------------------------------------------------------------------

#[derive(Clone, Copy, Debug, PartialEq, Eq)]
enum Route {
    Concrete,
    Dyn,
}

/// encode one element header; returns (bytes written to the sink, reported count)
fn enc_header(ti: usize, route: Route, h: DataElementHeader) -> Result<(Vec<u8>, usize), String> {
    let mut out: Vec<u8> = vec![];
    let r = match route {
        Route::Concrete => match ti {
            0 => ImplicitVRLittleEndianEncoder::default().encode_element_header(&mut out, h),
            1 => ExplicitVRLittleEndianEncoder::default().encode_element_header(&mut out, h),
            _ => ExplicitVRBigEndianEncoder::default().encode_element_header(&mut out, h),
        },
        Route::Dyn => {
            let enc = ts_by_uid(TS4[ti]).encoder_for::<Vec<u8>>().ok_or("no encoder")?;
            EncodeTo::encode_element_header(&*enc, &mut out, h)
        }
    };
    match r {
        Ok(n) => Ok((out, n)),
        Err(e) => Err(format!("{e}")),
    }
}

#[derive(Clone, Copy, Debug, PartialEq, Eq)]
enum ItemOp {
    Item(u32),
    ItemDelim,
    SeqDelim,
}

fn enc_item(ti: usize, route: Route, op: ItemOp) -> Result<Vec<u8>, String> {
    let mut out: Vec<u8> = vec![];
    macro_rules! go {
        ($e:expr) => {
            match op {
                ItemOp::Item(l) => $e.encode_item_header(&mut out, l),
                ItemOp::ItemDelim => $e.encode_item_delimiter(&mut out),
                ItemOp::SeqDelim => $e.encode_sequence_delimiter(&mut out),
            }
        };
    }
    let r = match route {
        Route::Concrete => match ti {
            0 => go!(ImplicitVRLittleEndianEncoder::default()),
            1 => go!(ExplicitVRLittleEndianEncoder::default()),
            _ => go!(ExplicitVRBigEndianEncoder::default()),
        },
        Route::Dyn => {
            let enc = ts_by_uid(TS4[ti]).encoder_for::<Vec<u8>>().ok_or("no encoder")?;
            match op {
                ItemOp::Item(l) => EncodeTo::encode_item_header(&*enc, &mut out, l),
                ItemOp::ItemDelim => EncodeTo::encode_item_delimiter(&*enc, &mut out),
                ItemOp::SeqDelim => EncodeTo::encode_sequence_delimiter(&*enc, &mut out),
            }
        }
    };
    r.map(|_| out).map_err(|e| format!("{e}"))
}

#[derive(Clone, Copy, Debug, PartialEq, Eq)]
enum Dec {
    /// the codec of the syntax, concrete type
    Concrete,
    /// Box<dyn DecodeFrom> from TransferSyntax::decoder_for
    Dyn,
    /// adaptive LE decoder first locked by an unambiguous leading element of the same syntax
    AdaptiveLocked,
    /// adaptive LE decoder in its initial state (only on unambiguous input)
    AdaptiveFresh,
}

/// an element that locks the adaptive decoder: (0008,0018) UI, 4 bytes "1.2\0"
fn lock_prefix(ts: Ts) -> Vec<u8> {
    let mut p = rds::encode_header(ts, (0x0008, 0x0018), *b"UI", 4).unwrap();
    p.extend_from_slice(b"1.2\0");
    p
}

/// decode one element header from `bytes` (followed by junk); returns (header, reported bytes_read, bytes really consumed)
fn dec_header(ti: usize, d: Dec, bytes: &[u8]) -> Result<(DataElementHeader, usize, usize), String> {
    let mut src: &[u8] = bytes;
    let before = src.len();
    let r = match d {
        Dec::Concrete => match ti {
            0 => Decode::decode_header(&ImplicitVRLittleEndianDecoder::default(), &mut src),
            1 => Decode::decode_header(&ExplicitVRLittleEndianDecoder::default(), &mut src),
            _ => Decode::decode_header(&ExplicitVRBigEndianDecoder::default(), &mut src),
        },
        Dec::Dyn => {
            let dec = ts_by_uid(TS4[ti]).decoder_for::<&[u8]>().ok_or("no decoder")?;
            DecodeFrom::decode_header(&*dec, &mut src)
        }
        Dec::AdaptiveFresh => Decode::decode_header(&AdaptiveVRLittleEndianDecoder::default(), &mut src),
        Dec::AdaptiveLocked => {
            let dec = AdaptiveVRLittleEndianDecoder::default();
            let prefix = lock_prefix(ts_of(ti));
            let mut p: &[u8] = &prefix;
            let (h, n) = Decode::decode_header(&dec, &mut p).map_err(|e| format!("lock element: {e}"))?;
            if h.tag != Tag(0x0008, 0x0018) || h.len.0 != 4 || n != 8 {
                return Err(format!("lock element decoded as {h:?} ({n} bytes)"));
            }
            Decode::decode_header(&dec, &mut src)
        }
    };
    match r {
        Ok((h, n)) => Ok((h, n, before - src.len())),
        Err(e) => Err(format!("{e}")),
    }
}

fn dec_item(ti: usize, d: Dec, bytes: &[u8]) -> Result<(SequenceItemHeader, usize), String> {
    let mut src: &[u8] = bytes;
    let before = src.len();
    let r = match d {
        Dec::Concrete => match ti {
            0 => Decode::decode_item_header(&ImplicitVRLittleEndianDecoder::default(), &mut src),
            1 => Decode::decode_item_header(&ExplicitVRLittleEndianDecoder::default(), &mut src),
            _ => Decode::decode_item_header(&ExplicitVRBigEndianDecoder::default(), &mut src),
        },
        Dec::Dyn => {
            let dec = ts_by_uid(TS4[ti]).decoder_for::<&[u8]>().ok_or("no decoder")?;
            DecodeFrom::decode_item_header(&*dec, &mut src)
        }
        Dec::AdaptiveFresh | Dec::AdaptiveLocked => Decode::decode_item_header(&AdaptiveVRLittleEndianDecoder::default(), &mut src),
    };
    r.map(|h| (h, before - src.len())).map_err(|e| format!("{e}"))
}

// ------------------------------------------------------------------------------------------------
// cases
// ------------------------------------------------------------------------------------------------

#[derive(Clone, Debug)]
enum Case {
    Enc { ti: usize, route: Route, vr: &'static str, tag: (u16, u16), len: u32 },
    Dec { ti: usize, d: Dec, vr: &'static str, tag: (u16, u16), len: u32 },
    /// decode_header over an item/delimiter layout (tag + 32-bit length)
    DecDelim { ti: usize, d: Dec, tag: (u16, u16), len: u32 },
    EncItem { ti: usize, route: Route, op: ItemOp },
    DecItem { ti: usize, d: Dec, tag: (u16, u16), len: u32 },
}

fn all_cases() -> Vec<Case> {
    let mut v = vec![];
    let item_tags = [(0xFFFE, 0xE000), (0xFFFE, 0xE00D), (0xFFFE, 0xE0DD)];
    for ti in 0..3 {
        for vr in rds::VRS {
            for tag in element_tags(vr) {
                for len in LENGTHS {
                    for route in [Route::Concrete, Route::Dyn] {
                        v.push(Case::Enc { ti, route, vr, tag, len });
                    }
                    for d in [Dec::Concrete, Dec::Dyn, Dec::AdaptiveLocked, Dec::AdaptiveFresh] {
                        if ti == 2 && matches!(d, Dec::AdaptiveLocked | Dec::AdaptiveFresh) {
                            continue; // the adaptive decoder is little endian only
                        }
                        v.push(Case::Dec { ti, d, vr, tag, len });
                    }
                }
            }
        }
        for len in LENGTHS {
            for route in [Route::Concrete, Route::Dyn] {
                v.push(Case::EncItem { ti, route, op: ItemOp::Item(len) });
            }
        }
        for route in [Route::Concrete, Route::Dyn] {
            v.push(Case::EncItem { ti, route, op: ItemOp::ItemDelim });
            v.push(Case::EncItem { ti, route, op: ItemOp::SeqDelim });
        }
        for d in [Dec::Concrete, Dec::Dyn, Dec::AdaptiveFresh] {
            if ti == 2 && d == Dec::AdaptiveFresh {
                continue;
            }
            for tag in item_tags {
                for len in LENGTHS {
                    if tag != (0xFFFE, 0xE000) && len != 0 {
                        continue; // delimiters carry length 0 (PS3.5 7.5)
                    }
                    v.push(Case::DecItem { ti, d, tag, len });
                    v.push(Case::DecDelim { ti, d, tag, len });
                }
            }
            // decode_item_header over something that is not an item: must not be returned as one
            for tag in [(0x0008, 0x0005), (0xFFFE, 0xE001), (0xFFFF, 0xFFFF)] {
                v.push(Case::DecItem { ti, d, tag, len: 0 });
            }
        }
    }
    v
}

fn run_case(l: &mut Local, dict: &Dict, idx: usize, c: &Case) {
    let case_id = format!("hdr/{idx}");
    if !l.want(&case_id) {
        return;
    }
    l.eval();
    l.nontrivial(&format!("{c:?}"));
    match c {
        Case::Enc { ti, route, vr, tag, len } => {
            let ts = ts_of(*ti);
            let code = rds::vr(vr);
            let want = rds::encode_header(ts, *tag, code, *len);
            let class = json!({"subject": "encode_element_header", "ts": ts_name(*ti), "route": format!("{route:?}"), "vr": vr,
                "length_class": length_class(*len), "tag_class": tag_class(*tag), "short_vr": rds::is_short(code)});
            let detail = |m: String| json!({"tag": format!("{tag:04X?}"), "len": len, "expected": want.as_ref().map(|b| vx_data::hex(b)), "message": m});
            let h = DataElementHeader::new(Tag(tag.0, tag.1), vx_data::vr_of_str(vr), Length(*len));
            match guard(|| enc_header(*ti, *route, h)) {
                Err(p) => {
                    l.outcome("panic");
                    l.fail(&case_id, merge(&class, json!({"kind": "panic"})), detail(p));
                }
                Ok(Ok((bytes, n))) => match &want {
                    None => {
                        l.outcome("overflow-not-rejected");
                        l.fail(&case_id, merge(&class, json!({"kind": "overflow-accepted"})), detail(format!("wrote {} (reported {n})", vx_data::hex(&bytes))));
                    }
                    Some(w) => {
                        if &bytes != w {
                            l.outcome("layout-differs");
                            l.fail(&case_id, merge(&class, json!({"kind": "layout"})), detail(format!("wrote {}", vx_data::hex(&bytes))));
                        } else if n != rds::header_size(ts, code) || n != bytes.len() {
                            l.outcome("count-differs");
                            l.fail(&case_id, merge(&class, json!({"kind": "count"})), detail(format!("reported {n} bytes, layout has {}", w.len())));
                        } else {
                            l.outcome_with(if n == 8 { "encoded-8-byte-header" } else { "encoded-12-byte-header" }, || json!({"case": format!("{c:?}"), "bytes": vx_data::hex(&bytes)}));
                        }
                    }
                },
                Ok(Err(e)) => match &want {
                    None => l.outcome_with("overflow-rejected", || json!({"case": format!("{c:?}"), "error": e})),
                    Some(_) => {
                        l.outcome("encode-err");
                        l.fail(&case_id, merge(&class, json!({"kind": "err"})), detail(e));
                    }
                },
            }
        }
        Case::Dec { ti, d, vr, tag, len } => {
            let ts = ts_of(*ti);
            let code = rds::vr(vr);
            let Some(mut bytes) = rds::encode_header(ts, *tag, code, *len) else {
                l.outcome("no-such-layout");
                return;
            };
            let size = bytes.len();
            bytes.extend_from_slice(&[0xA5; 16]); // junk after the header: must not be touched
            if *d == Dec::AdaptiveFresh {
                // only where the statement of C08 says the probe is decidable
                let after = [bytes[4], bytes[5]];
                let skip = if ts.explicit() { enc_amb::explicit_is_undecidable(dict, *tag, code) } else { enc_amb::implicit_is_ambiguous(dict, *tag, after) };
                if skip {
                    l.outcome("adaptive-fresh-ambiguous-skipped");
                    return;
                }
            }
            let class = json!({"subject": "decode_header", "ts": ts_name(*ti), "decoder": format!("{d:?}"), "vr": vr,
                "length_class": length_class(*len), "tag_class": tag_class(*tag), "short_vr": rds::is_short(code)});
            let detail = |m: String| json!({"tag": format!("{tag:04X?}"), "len": len, "bytes": vx_data::hex(&bytes[..size]), "message": m});
            match guard(|| dec_header(*ti, *d, &bytes)) {
                Err(p) => {
                    l.outcome("panic");
                    l.fail(&case_id, merge(&class, json!({"kind": "panic"})), detail(p));
                }
                Ok(Err(e)) => {
                    l.outcome("decode-err");
                    l.fail(&case_id, merge(&class, json!({"kind": "err"})), detail(e));
                }
                Ok(Ok((h, n, consumed))) => {
                    let got_vr = vr_code(h.vr());
                    let vr_ok = if ts.explicit() {
                        got_vr == code
                    } else {
                        // the VR is not on the wire: it is the dictionary's (documented relaxation of xs/ox/px/lt)
                        dict.implicit_vrs(*tag, false).contains(&got_vr)
                    };
                    if h.tag() != Tag(tag.0, tag.1) || h.len.0 != *len {
                        l.outcome("header-differs");
                        l.fail(&case_id, merge(&class, json!({"kind": "tag-or-length"})), detail(format!("decoded {h:?}")));
                    } else if !vr_ok {
                        l.outcome("vr-differs");
                        l.fail(&case_id, merge(&class, json!({"kind": "vr"})), detail(format!("decoded {h:?}")));
                    } else if n != size || consumed != size {
                        l.outcome("bytes-read-differs");
                        l.fail(&case_id, merge(&class, json!({"kind": "bytes_read"})), detail(format!("reported {n}, consumed {consumed}, layout {size}")));
                    } else {
                        l.outcome_with(if size == 8 { "decoded-8-byte-header" } else { "decoded-12-byte-header" }, || json!({"case": format!("{c:?}"), "bytes": vx_data::hex(&bytes[..size])}));
                    }
                }
            }
        }
        Case::DecDelim { ti, d, tag, len } => {
            let ts = ts_of(*ti);
            let mut bytes = match tag {
                (0xFFFE, 0xE000) => rds::encode_item_header(ts, *len),
                (0xFFFE, 0xE00D) => rds::item_delim(ts),
                _ => rds::seq_delim(ts),
            };
            bytes.extend_from_slice(&[0xA5; 16]);
            let class = json!({"subject": "decode_header-on-item", "ts": ts_name(*ti), "decoder": format!("{d:?}"),
                "length_class": length_class(*len), "tag_class": tag_class(*tag)});
            let detail = |m: String| json!({"tag": format!("{tag:04X?}"), "len": len, "bytes": vx_data::hex(&bytes[..8]), "message": m});
            match guard(|| dec_header(*ti, *d, &bytes)) {
                Err(p) => {
                    l.outcome("panic");
                    l.fail(&case_id, merge(&class, json!({"kind": "panic"})), detail(p));
                }
                Ok(Err(e)) => {
                    l.outcome("decode-err");
                    l.fail(&case_id, merge(&class, json!({"kind": "err"})), detail(e));
                }
                Ok(Ok((h, n, consumed))) => {
                    if h.tag() != Tag(tag.0, tag.1) || h.len.0 != *len || n != 8 || consumed != 8 {
                        l.outcome("item-header-differs");
                        l.fail(&case_id, merge(&class, json!({"kind": "item-layout"})), detail(format!("decoded {h:?}, reported {n}, consumed {consumed}")));
                    } else {
                        l.outcome_with("decoded-item-as-element-header", || json!({"case": format!("{c:?}")}));
                    }
                }
            }
        }
        Case::EncItem { ti, route, op } => {
            let ts = ts_of(*ti);
            let want = match op {
                ItemOp::Item(len) => rds::encode_item_header(ts, *len),
                ItemOp::ItemDelim => rds::item_delim(ts),
                ItemOp::SeqDelim => rds::seq_delim(ts),
            };
            let class = json!({"subject": "encode_item", "ts": ts_name(*ti), "route": format!("{route:?}"), "op": format!("{op:?}").split('(').next().unwrap()});
            match guard(|| enc_item(*ti, *route, *op)) {
                Err(p) => {
                    l.outcome("panic");
                    l.fail(&case_id, merge(&class, json!({"kind": "panic"})), json!({"op": format!("{op:?}"), "message": p}));
                }
                Ok(Err(e)) => {
                    l.outcome("encode-err");
                    l.fail(&case_id, merge(&class, json!({"kind": "err"})), json!({"op": format!("{op:?}"), "message": e}));
                }
                Ok(Ok(b)) => {
                    if b != want {
                        l.outcome("item-layout-differs");
                        l.fail(&case_id, merge(&class, json!({"kind": "layout"})), json!({"op": format!("{op:?}"), "expected": vx_data::hex(&want), "got": vx_data::hex(&b)}));
                    } else {
                        l.outcome_with("encoded-item-or-delimiter", || json!({"case": format!("{c:?}"), "bytes": vx_data::hex(&b)}));
                    }
                }
            }
        }
        Case::DecItem { ti, d, tag, len } => {
            let ts = ts_of(*ti);
            // tag + 32-bit length in the byte order of the syntax
            let mut bytes = rds::encode_header(Ts::ImplicitLE, *tag, *b"UN", *len).unwrap();
            if ts.big() {
                bytes = vec![bytes[1], bytes[0], bytes[3], bytes[2], bytes[7], bytes[6], bytes[5], bytes[4]];
            }
            bytes.extend_from_slice(&[0xA5; 16]);
            let class = json!({"subject": "decode_item_header", "ts": ts_name(*ti), "decoder": format!("{d:?}"),
                "length_class": length_class(*len), "tag_class": tag_class(*tag)});
            let detail = |m: String| json!({"tag": format!("{tag:04X?}"), "len": len, "bytes": vx_data::hex(&bytes[..8]), "message": m});
            let want = match tag {
                (0xFFFE, 0xE000) => Some(SequenceItemHeader::Item { len: Length(*len) }),
                (0xFFFE, 0xE00D) => Some(SequenceItemHeader::ItemDelimiter),
                (0xFFFE, 0xE0DD) => Some(SequenceItemHeader::SequenceDelimiter),
                _ => None,
            };
            match guard(|| dec_item(*ti, *d, &bytes)) {
                Err(p) => {
                    l.outcome("panic");
                    l.fail(&case_id, merge(&class, json!({"kind": "panic"})), detail(p));
                }
                Ok(Err(e)) => match want {
                    None => l.outcome_with("non-item-rejected", || json!({"case": format!("{c:?}"), "error": e})),
                    Some(_) => {
                        l.outcome("decode-err");
                        l.fail(&case_id, merge(&class, json!({"kind": "err"})), detail(e));
                    }
                },
                Ok(Ok((h, consumed))) => {
                    // (Length equality is false on undefined lengths: compare the raw numbers)
                    let same = match (h, want) {
                        (SequenceItemHeader::Item { len: a }, Some(SequenceItemHeader::Item { len: b })) => a.0 == b.0,
                        (SequenceItemHeader::ItemDelimiter, Some(SequenceItemHeader::ItemDelimiter)) => true,
                        (SequenceItemHeader::SequenceDelimiter, Some(SequenceItemHeader::SequenceDelimiter)) => true,
                        _ => false,
                    };
                    if !same || consumed != 8 {
                        l.outcome("item-differs");
                        l.fail(&case_id, merge(&class, json!({"kind": "item"})), detail(format!("decoded {h:?}, consumed {consumed}")));
                    } else {
                        l.outcome_with("decoded-item-or-delimiter", || json!({"case": format!("{c:?}")}));
                    }
                }
            }
        }
    }
}

fn merge(a: &serde_json::Value, b: serde_json::Value) -> serde_json::Value {
    let mut m = a.as_object().unwrap().clone();
    for (k, v) in b.as_object().unwrap() {
        m.insert(k.clone(), v.clone());
    }
    serde_json::Value::Object(m)
}

/// the VR code table: all 65 536 two-byte codes
fn run_code(l: &mut Local, code: u16) {
    let c = code.to_be_bytes();
    let defined = enc_amb::is_vr_code(c);
    let kind_of_code = if defined {
        "defined"
    } else if c.iter().all(|b| b.is_ascii_uppercase()) {
        "undefined-upper"
    } else if c.iter().all(|b| b.is_ascii_alphabetic()) && rds::VRS.iter().any(|s| s.to_ascii_lowercase().as_bytes() == c.map(|b| b.to_ascii_lowercase())) {
        "case-variant"
    } else {
        "other"
    };
    // 1. VR::from_binary
    let case_id = format!("code/{code:04X}/from_binary");
    if l.want(&case_id) {
        l.eval();
        l.nontrivial(&case_id);
        let class = json!({"subject": "VR::from_binary", "code_kind": kind_of_code});
        match guard(|| VR::from_binary(c)) {
            Err(p) => {
                l.outcome("panic");
                l.fail(&case_id, merge(&class, json!({"kind": "panic"})), json!({"code": vx_data::hex(&c), "message": p}));
            }
            Ok(got) => {
                let ok = match got {
                    Some(v) => defined && v.to_bytes() == c && v.to_string().as_bytes() == c,
                    None => !defined,
                };
                if ok {
                    l.outcome(if defined { "code-recognised" } else { "code-rejected" });
                } else {
                    l.outcome("code-table-differs");
                    l.fail(&case_id, merge(&class, json!({"kind": if defined { "not-recognised" } else { "wrongly-recognised" }})), json!({"code": vx_data::hex(&c), "got": format!("{got:?}")}));
                }
            }
        }
    }
    // 2. VR::from_str on the same two bytes when they are text
    if let Ok(s) = std::str::from_utf8(&c) {
        let case_id = format!("code/{code:04X}/from_str");
        if l.want(&case_id) {
            l.eval();
            l.nontrivial(&case_id);
            let class = json!({"subject": "VR::from_str", "code_kind": kind_of_code});
            match guard(|| VR::from_str(s)) {
                Err(p) => {
                    l.outcome("panic");
                    l.fail(&case_id, merge(&class, json!({"kind": "panic"})), json!({"code": s, "message": p}));
                }
                Ok(got) => {
                    let ok = match got {
                        Ok(v) => defined && v.to_bytes() == c,
                        Err(_) => !defined,
                    };
                    if ok {
                        l.outcome(if defined { "code-recognised" } else { "code-rejected" });
                    } else {
                        l.outcome("code-table-differs");
                        l.fail(&case_id, merge(&class, json!({"kind": if defined { "not-recognised" } else { "wrongly-recognised" }})), json!({"code": s, "got": format!("{got:?}")}));
                    }
                }
            }
        }
    }
    // 3. the explicit decoders on a header carrying this code: a defined code gives that VR with
    //    its own length class; an undefined code must not come back as a defined VR (Err or UN).
    for (ti, d) in [(1, Dec::Concrete), (2, Dec::Concrete), (1, Dec::AdaptiveLocked)] {
        let case_id = format!("code/{code:04X}/decode/ts{ti}/{d:?}");
        if !l.want(&case_id) {
            continue;
        }
        l.eval();
        l.nontrivial(&case_id);
        let ts = ts_of(ti);
        let tag = (0x0009u16, 0x1001u16);
        // bytes: tag, code, then six bytes that read as length 2 in the 16-bit form and as
        // reserved 2 / length 0x0000_0006 (LE) in the 32-bit form: the two forms give different lengths
        let mut bytes = rds::encode_header(ts, tag, *b"UN", 0).unwrap()[..4].to_vec();
        bytes.extend_from_slice(&c);
        let (len16, len32): (u32, u32) = (2, 6);
        if ts.big() {
            bytes.extend_from_slice(&[0, 2, 0, 0, 0, 6]);
        } else {
            bytes.extend_from_slice(&[2, 0, 6, 0, 0, 0]);
        }
        bytes.extend_from_slice(&[0xA5; 8]);
        let class = json!({"subject": "decode_header-code", "ts": ts_name(ti), "decoder": format!("{d:?}"), "code_kind": kind_of_code});
        let detail = |m: String| json!({"bytes": vx_data::hex(&bytes[..12]), "message": m});
        match guard(|| dec_header(ti, d, &bytes)) {
            Err(p) => {
                l.outcome("panic");
                l.fail(&case_id, merge(&class, json!({"kind": "panic"})), detail(p));
            }
            Ok(Err(e)) => {
                if defined {
                    l.outcome("decode-err");
                    l.fail(&case_id, merge(&class, json!({"kind": "err"})), detail(e));
                } else {
                    l.outcome("undefined-code-rejected");
                }
            }
            Ok(Ok((h, n, consumed))) => {
                if defined {
                    let short = rds::is_short(c);
                    let (wl, wn) = if short { (len16, 8) } else { (len32, 12) };
                    // in the 32-bit form the two bytes after the code are reserved, not length
                    let ok = vr_code(h.vr()) == c && h.len.0 == wl && n == wn && consumed == wn && h.tag() == Tag(tag.0, tag.1);
                    if ok {
                        l.outcome("defined-code-decoded");
                    } else {
                        l.outcome("code-decode-differs");
                        l.fail(&case_id, merge(&class, json!({"kind": "layout", "vr": rds::vr_str(c)})), detail(format!("decoded {h:?}, reported {n}, consumed {consumed}")));
                    }
                } else if h.vr() == VR::UN {
                    l.outcome("undefined-code-as-UN");
                } else {
                    l.outcome("undefined-code-recognised");
                    l.fail(&case_id, merge(&class, json!({"kind": "wrongly-recognised"})), detail(format!("decoded {h:?}")));
                }
            }
        }
    }
}

/// strings that are not two upper-case letters must not parse
fn run_str_extras(l: &mut Local) {
    let mut extras: Vec<String> = vec!["".into(), "A".into(), "U".into(), " AE".into(), "AE ".into(), "AEE".into(), "A\u{00C9}".into(), "\u{FF21}\u{FF25}".into()];
    for v in rds::VRS {
        extras.push(v.to_ascii_lowercase());
        extras.push(format!("{}{}", &v[..1], v[1..].to_ascii_lowercase()));
        extras.push(format!("{v}\0"));
    }
    for s in extras {
        let case_id = format!("str/{}", vx_data::hex(s.as_bytes()));
        if !l.want(&case_id) {
            continue;
        }
        l.eval();
        l.nontrivial(&case_id);
        let class = json!({"subject": "VR::from_str", "code_kind": "not-two-upper-case-letters"});
        match guard(|| VR::from_str(&s)) {
            Err(p) => {
                l.outcome("panic");
                l.fail(&case_id, merge(&class, json!({"kind": "panic"})), json!({"text": s, "message": p}));
            }
            Ok(Ok(v)) => {
                l.outcome("code-table-differs");
                l.fail(&case_id, merge(&class, json!({"kind": "wrongly-recognised"})), json!({"text": s, "got": format!("{v:?}")}));
            }
            Ok(Err(_)) => l.outcome("code-rejected"),
        }
    }
    // to_bytes of each of the 34
    for v in rds::VRS {
        let case_id = format!("to_bytes/{v}");
        if !l.want(&case_id) {
            continue;
        }
        l.eval();
        l.nontrivial(&case_id);
        let vr = vx_data::vr_of_str(v);
        if vr.to_bytes() != rds::vr(v) || vr.to_string() != v {
            l.outcome("code-table-differs");
            l.fail(&case_id, json!({"subject": "VR::to_bytes", "vr": v, "kind": "to_bytes"}), json!({"got": vx_data::hex(&vr.to_bytes())}));
        } else {
            l.outcome("code-recognised");
        }
    }
}

fn main() {
    let check = Check::from_args("C03", Level::Exploration);
    check.set_rule("element headers: 34 VRs x 3 syntaxes x tags {(0000,0000),(0008,0005),(7FE0,0010),(FFFF,FFFF),(0009,1001),(0102,0304), the VR's own standard tag} x lengths {0,1,2,FFFE,FFFF,10000,10001,FFFFFFFE,undefined} x {encode via concrete and type-erased codec; decode via concrete, type-erased, adaptive (locked by a leading element, and fresh where unambiguous)}; item/delimiter headers with the same lengths through encode_item_header/delimiters, decode_item_header and decode_header; all 65 536 two-byte codes through VR::from_binary, VR::from_str and both explicit decoders + the adaptive decoder; a case is one call; non-trivial = the codec call was made; distinct by case descriptor");
    check.assume("vx-ref header layout functions (PS3.5 7.1.2, 7.1.3, 7.5) and the list of 34 defined VR codes are the trusted base; in Implicit VR LE the decoded VR is compared with the extracted dictionary table");
    check.assume("quick = thorough: the universe is small and enumerated completely in both tiers");
    let dict = Dict::load();
    let cases = all_cases();
    check.extra("header_cases", json!(cases.len()));
    check.extra("vr_codes", json!(65536));
    check.par_range(cases.len() as u64, |l, i| run_case(l, &dict, i as usize, &cases[i as usize]));
    check.par_range(65536, |l, i| run_code(l, i as u16));
    let mut l = check.local();
    run_str_extras(&mut l);
    drop(l);
    check.finish();
}
