//! C24 — DICOM JSON output conforms to PS3.18 Annex F.
//!
//! Every data set of the C23 universe is serialised with `to_string` and `to_value`; the output is
//! judged by the independent validator `vx_ref::annex_f` (own JSON reader, member order checked on
//! the text) and its content is decoded and compared with the values the generator put in.
#[path = "../json_uni.rs"]
mod json_uni;

use json_uni::*;
use vx_data::rt::describe;
use vx_data::*;
use vx_kit::{guard, json, Check, Level, Local};
use vx_ref::annex_f::{self, J};

fn class_with(base: &serde_json::Value, extra: serde_json::Value) -> serde_json::Value {
    let mut m = base.as_object().unwrap().clone();
    for (k, v) in extra.as_object().unwrap() {
        m.insert(k.clone(), v.clone());
    }
    serde_json::Value::Object(m)
}

fn trim_pad(s: &str) -> &str {
    s.trim_end_matches([' ', '\0'])
}

fn num_of(j: &J) -> Option<f64> {
    match j {
        J::Num(n) => n.parse().ok(),
        _ => None,
    }
}

/// Decode the JSON attribute and compare it with the generator's value (little-endian bytes / text).
fn content(nodes: &[Node], ds: &J) -> Result<(), (String, String)> {
    let e = |k: &str, m: String| Err((k.to_string(), m));
    let members = match ds {
        J::Obj(m) => m,
        _ => return e("content-shape", "data set is not an object".into()),
    };
    if members.len() != nodes.len() {
        return e("content-attributes", format!("{} members for {} attributes", members.len(), nodes.len()));
    }
    for (n, (key, attr)) in nodes.iter().zip(members) {
        let t = n.tag();
        if *key != format!("{:04X}{:04X}", t.0, t.1) {
            return e("content-key", format!("member {key} for attribute {:04X?}", t));
        }
        let here = |m: String| format!("{key}: {m}");
        match n {
            Node::Pix { .. } => unreachable!(),
            Node::Seq { items, .. } => {
                if attr.get("vr") != Some(&J::Str("SQ".into())) {
                    return e("content-vr", here(format!("vr {:?} for a sequence", attr.get("vr"))));
                }
                let arr: Vec<J> = match attr.get("Value") {
                    Some(J::Arr(a)) => a.clone(),
                    None => vec![],
                    Some(o) => return e("content-shape", here(format!("sequence Value is a {}", o.kind()))),
                };
                if arr.len() != items.len() {
                    return e("content-item-count", here(format!("{} items for {}", arr.len(), items.len())));
                }
                for (it, j) in items.iter().zip(&arr) {
                    content(it, j)?;
                }
            }
            Node::Prim(a) => {
                if attr.get("vr") != Some(&J::Str(a.vr.into())) {
                    return e("content-vr", here(format!("vr {:?}, attribute has {}", attr.get("vr"), a.vr)));
                }
                let le = &a.le;
                match a.vr {
                    "OB" | "OD" | "OF" | "OL" | "OV" | "OW" | "UN" => {
                        let got = annex_f::inline_binary(attr).unwrap_or_default();
                        if &got != le {
                            return e("content-inline-binary", here(format!("decoded {:02X?}, value bytes {:02X?}", got, le)));
                        }
                    }
                    vr => {
                        let arr: Vec<J> = match attr.get("Value") {
                            Some(J::Arr(a)) => a.clone(),
                            None => vec![],
                            Some(o) => return e("content-shape", here(format!("Value is a {}", o.kind()))),
                        };
                        let bad = |what: &str| e("content-value", here(format!("{what}: Value {:?}, value bytes {:02X?}", arr, le)));
                        match vr {
                            "FL" | "FD" => {
                                let w = if vr == "FL" { 4 } else { 8 };
                                let want: Vec<f64> = le.chunks(w).map(|c| if w == 4 { f32::from_le_bytes(c.try_into().unwrap()) as f64 } else { f64::from_le_bytes(c.try_into().unwrap()) }).collect();
                                if want.len() != arr.len() {
                                    return bad("count");
                                }
                                for (x, j) in want.iter().zip(&arr) {
                                    let ok = match j {
                                        J::Num(n) => {
                                            let p: f64 = n.parse().unwrap_or(f64::NAN);
                                            let same = if w == 4 { (p as f32).to_bits() == (*x as f32).to_bits() } else { p.to_bits() == x.to_bits() };
                                            x.is_finite() && same
                                        }
                                        J::Str(s) => (s == "NaN" && x.is_nan()) || (s == "inf" && *x == f64::INFINITY) || (s == "-inf" && *x == f64::NEG_INFINITY),
                                        _ => false,
                                    };
                                    if !ok {
                                        return bad("float");
                                    }
                                }
                            }
                            "SS" | "US" | "SL" | "UL" | "SV" | "UV" => {
                                let w = match vr {
                                    "SS" | "US" => 2,
                                    "SL" | "UL" => 4,
                                    _ => 8,
                                };
                                let signed = matches!(vr, "SS" | "SL" | "SV");
                                let want: Vec<i128> = le
                                    .chunks(w)
                                    .map(|c| {
                                        let mut b = [0u8; 16];
                                        b[..w].copy_from_slice(c);
                                        if signed && c[w - 1] & 0x80 != 0 {
                                            for x in b[w..].iter_mut() {
                                                *x = 0xFF;
                                            }
                                        }
                                        i128::from_le_bytes(b)
                                    })
                                    .collect();
                                if want.len() != arr.len() {
                                    return bad("count");
                                }
                                for (x, j) in want.iter().zip(&arr) {
                                    let got: Option<i128> = match j {
                                        J::Num(n) => n.parse().ok(),
                                        J::Str(s) if w == 8 => s.parse().ok(),
                                        _ => None,
                                    };
                                    if got != Some(*x) {
                                        return bad("integer");
                                    }
                                }
                            }
                            "AT" => {
                                let want: Vec<String> = le.chunks(4).map(|c| format!("{:04X}{:04X}", u16::from_le_bytes([c[0], c[1]]), u16::from_le_bytes([c[2], c[3]]))).collect();
                                let got: Vec<String> = arr.iter().map(|j| if let J::Str(s) = j { s.clone() } else { format!("{j:?}") }).collect();
                                // the structural validator reports the form; here: same tags
                                let norm = |s: &String| s.chars().filter(|c| c.is_ascii_hexdigit()).collect::<String>().to_uppercase();
                                if want.len() != got.len() || want.iter().zip(&got).any(|(a, b)| *a != norm(b)) {
                                    return bad("tags");
                                }
                            }
                            _ => {
                                // text: strings (PN: component group objects; IS/DS: numbers allowed)
                                let text = String::from_utf8_lossy(le).into_owned();
                                // LT, ST, UT, UR hold a single value in which a backslash is an ordinary character
                                let single = matches!(vr, "LT" | "ST" | "UT" | "UR");
                                let want: Vec<&str> = if text.is_empty() {
                                    vec![]
                                } else if single {
                                    vec![trim_pad(&text)]
                                } else {
                                    text.split('\\').map(trim_pad).collect()
                                };
                                if want.len() != arr.len() && !(want.iter().all(|w| w.is_empty()) && arr.is_empty()) {
                                    return bad("count");
                                }
                                for (x, j) in want.iter().zip(&arr) {
                                    let ok = match (vr, j) {
                                        ("PN", J::Obj(m)) => {
                                            let g = |k: &str| m.iter().find(|(n, _)| n == k).and_then(|(_, v)| if let J::Str(s) = v { Some(s.as_str()) } else { None }).unwrap_or("");
                                            let joined = format!("{}={}={}", g("Alphabetic"), g("Ideographic"), g("Phonetic"));
                                            joined.trim_end_matches('=') == x.trim_end_matches('=')
                                        }
                                        ("IS" | "DS", J::Num(_)) => x.trim().parse::<f64>().ok() == num_of(j),
                                        ("IS" | "DS", J::Str(s)) => match (x.trim().parse::<f64>(), s.trim().parse::<f64>()) {
                                            (Ok(p), Ok(q)) => p == q,
                                            _ => trim_pad(s) == *x,
                                        },
                                        (_, J::Str(s)) => trim_pad(s) == *x,
                                        (_, J::Null) => x.is_empty(),
                                        _ => false,
                                    };
                                    if !ok {
                                        return bad("text");
                                    }
                                }
                            }
                        }
                    }
                }
            }
        }
    }
    Ok(())
}

fn case(l: &mut Local, idx: usize, nodes: &[Node]) {
    let desc = describe(nodes);
    let obj = to_obj(nodes);
    for entry in ["to_string", "to_value"] {
        let case_id = format!("af/ds{idx}/{entry}");
        if !l.want(&case_id) {
            continue;
        }
        l.eval();
        l.nontrivial(&case_id);
        let base = class_with(&desc, json!({"entry": entry}));
        let text: Result<Result<String, String>, String> = if entry == "to_string" {
            guard(|| dicom_json::to_string(&obj).map_err(|e| e.to_string()))
        } else {
            guard(|| dicom_json::to_value(&obj).map(|v| v.to_string()).map_err(|e| e.to_string()))
        };
        let text = match text {
            Err(p) => {
                l.outcome("serialise-panic");
                l.fail(&case_id, class_with(&base, json!({"stage": "serialise", "kind": "panic"})), json!({"dataset": labels(nodes), "message": p}));
                continue;
            }
            Ok(Err(e)) => {
                l.outcome("serialise-err");
                l.fail(&case_id, class_with(&base, json!({"stage": "serialise", "kind": "err"})), json!({"dataset": labels(nodes), "message": e}));
                continue;
            }
            Ok(Ok(t)) => t,
        };
        let detail = |m: String| json!({"dataset": labels(nodes), "json": text.chars().take(500).collect::<String>(), "message": m});
        let tree = match annex_f::parse_json(&text) {
            Err(e) => {
                l.outcome("not-json");
                l.fail(&case_id, class_with(&base, json!({"stage": "syntax", "kind": "not-json"})), detail(e.to_string()));
                continue;
            }
            Ok(t) => t,
        };
        let mut rep = annex_f::Report::default();
        annex_f::validate_dataset(&tree, "", &mut rep);
        for (k, _) in &rep.notes {
            l.outcome(&format!("note-{k}"));
        }
        if !rep.ok() {
            // one failure per distinct kind
            let mut kinds: Vec<&str> = rep.violations.iter().map(|v| v.kind.as_str()).collect();
            kinds.dedup();
            kinds.sort();
            kinds.dedup();
            for k in kinds {
                let v = rep.violations.iter().find(|v| v.kind == k).unwrap();
                l.outcome(&format!("annex-f-{k}"));
                l.fail(&case_id, class_with(&base, json!({"stage": "structure", "kind": k})), detail(format!("{}: {}", v.path, v.msg)));
            }
            continue;
        }
        match content(nodes, &tree) {
            Ok(()) => l.outcome_with("conformant-and-content-equal", || json!({"case": case_id, "dataset": labels(nodes), "json": text.chars().take(200).collect::<String>()})),
            Err((k, m)) => {
                l.outcome(&format!("content-{k}"));
                l.fail(&case_id, class_with(&base, json!({"stage": "content", "kind": k})), detail(m));
            }
        }
    }
}

fn main() {
    let check = Check::from_args("C24", Level::Exploration);
    check.set_rule("every data set of the C23 universe (DS(1,0) ∪ DS_r(2,2) without encapsulated pixel data + extreme atoms alone and inside a sequence item; thorough: + DS(2,0) ∪ DS_r(3,2)) x {to_string, to_value}: the output text is parsed by an independent order-preserving JSON reader, validated structurally against PS3.18 Annex F (keys, order, vr, Value/InlineBinary per VR, empty values) and its content decoded (base64, numbers, tags, person names) and compared with the generator's value bytes; a case is (data set, entry point); non-trivial = the serialiser ran");
    check.assume("vx_ref::annex_f (written from PS3.18 F.2, own JSON and base64 readers) is the trusted base; non-finite floats may be the strings NaN/inf/-inf as dicom-json documents; SV/UV may be numbers or decimal strings; a sequence of zero items may carry an empty Value array; PN component groups are not required to be split");
    let uni = universe(check.thorough());
    check.extra("universe_datasets", json!(uni.len()));
    check.par_range(uni.len() as u64, |l, i| case(l, i as usize, &uni[i as usize]));
    check.finish();
}
