//! C04 — output is structurally valid with exact lengths and padding; byte counts are exact.
use vx_data::rt::{run, Which};
use vx_kit::{Check, Level};
fn main() {
    let check = Check::from_args("C04", Level::Exploration);
    check.set_rule("the C01 universe; every output parsed by the strict vx-ref PS3.5 parser (deflated output after independent inflate) and compared by wire value incl. the VR-specific padding byte and the container length modes; plus every atom fed to StatefulEncoder/BasicEncode directly with reported byte counts compared with bytes that reached a counting writer; distinct by case id");
    check.assume("vx-ref strict parser is the independent judge of PS3.5 validity");
    run(Which::C04, &check);
    vx_data::counts::run(&check);
    check.finish();
}
