//! C08 — flexible VR decoding agrees with the correct decoder.
//!
//! Every stream (reference-encoded, never by dicom-rs) in Explicit VR LE and Implicit VR LE is read
//! twice by `DataSetReader::new_with_ts_options`: once with `flexible_decoding(true)` (declared
//! syntax Explicit VR LE and, separately, Implicit VR LE) and once without it on the syntax the
//! stream is really in. The two token streams must be identical. The statement's ambiguity clause
//! is computed independently from the extracted dictionary table (enc_amb.rs): ambiguous /
//! undecidable streams are counted and skipped, never failed.
#[path = "../enc_amb.rs"]
mod enc_amb;

use dicom_core::header::Header;
use dicom_core::value::DicomValueType;
use dicom_parser::dataset::read::{DataSetReader, DataSetReaderOptions};
use dicom_parser::dataset::DataToken;
use vx_data::*;
use vx_kit::{guard, json, Check, Level, Local, Value};
use vx_ref::ds::{self as rds, RElem, RItem, RVal, Ts};

#[derive(Debug, PartialEq, Clone)]
enum Tok {
    Header { tag: (u16, u16), vr: [u8; 2], len: u32 },
    Value { typ: String, bytes: Vec<u8> },
    SeqStart { tag: (u16, u16), len: u32 },
    ItemStart { len: u32 },
    ItemEnd,
    SeqEnd,
    PixStart,
    OffsetTable(Vec<u32>),
    ItemValue(Vec<u8>),
    Err(String),
}

fn tok(t: DataToken) -> Tok {
    match t {
        DataToken::ElementHeader(h) => Tok::Header { tag: (h.tag().0, h.tag().1), vr: vr_code(h.vr()), len: h.len.0 },
        DataToken::PrimitiveValue(v) => Tok::Value { typ: format!("{:?}", v.value_type()), bytes: prim_le_bytes(&v) },
        DataToken::SequenceStart { tag, len } => Tok::SeqStart { tag: (tag.0, tag.1), len: len.0 },
        DataToken::ItemStart { len } => Tok::ItemStart { len: len.0 },
        DataToken::ItemEnd => Tok::ItemEnd,
        DataToken::SequenceEnd => Tok::SeqEnd,
        DataToken::PixelSequenceStart => Tok::PixStart,
        DataToken::OffsetTable(t) => Tok::OffsetTable(t),
        DataToken::ItemValue(b) => Tok::ItemValue(b),
    }
}

fn show(t: &Tok) -> String {
    let s = format!("{t:?}");
    if s.len() > 160 {
        format!("{}…({} chars)", &s[..160], s.len())
    } else {
        s
    }
}

const MAX_TOKENS: usize = 4096;

fn read_tokens(stream: &[u8], ts_uid: &str, flexible: bool) -> Result<Vec<Tok>, String> {
    let opts = DataSetReaderOptions::default().flexible_decoding(flexible);
    let rd = DataSetReader::new_with_ts_options(stream, ts_by_uid(ts_uid), opts).map_err(|e| format!("cannot create reader: {e}"))?;
    let mut out = vec![];
    for t in rd {
        match t {
            Ok(t) => out.push(tok(t)),
            Err(e) => {
                out.push(Tok::Err(format!("{e}")));
                break;
            }
        }
        if out.len() >= MAX_TOKENS {
            return Err("token limit exceeded".into());
        }
    }
    Ok(out)
}

/// first non-delimiter tag of a little-endian stream and the two bytes after it
fn first_element(stream: &[u8]) -> Option<((u16, u16), [u8; 2])> {
    let mut at = 0;
    loop {
        if stream.len() < at + 6 {
            return None;
        }
        let g = u16::from_le_bytes([stream[at], stream[at + 1]]);
        let e = u16::from_le_bytes([stream[at + 2], stream[at + 3]]);
        if g == 0xFFFE {
            at += 8;
            continue;
        }
        return Some(((g, e), [stream[at + 4], stream[at + 5]]));
    }
}

#[derive(Clone)]
struct Stream {
    family: &'static str,
    label: String,
    explicit: bool,
    bytes: Vec<u8>,
    /// extra descriptor fields
    extra: Value,
}

const ITEM_DELIM_LE: [u8; 8] = [0xFE, 0xFF, 0x0D, 0xE0, 0, 0, 0, 0];

/// the nine VR codes that the low half of an even implicit length can spell
fn even_codes() -> Vec<[u8; 2]> {
    rds::VRS.iter().map(|s| rds::vr(s)).filter(|c| c[0] % 2 == 0).collect()
}

fn filler(vr: &str, n: usize) -> Vec<u8> {
    match vr {
        "UI" | "IS" | "DS" | "DA" | "DT" | "TM" => vec![b'1'; n],
        "AE" | "AS" | "CS" | "LO" | "LT" | "PN" | "SH" | "ST" | "UC" | "UR" | "UT" => vec![b'A'; n],
        _ => (0..n).map(|i| (i % 251) as u8).collect(),
    }
}

/// Implicit streams whose first element's 32-bit length has low 16 bits spelling a VR code,
/// crossed with a first tag of every dictionary VR class.
fn spelled_length_streams(dict: &Dict) -> Vec<Stream> {
    let mut out = vec![];
    let sentinel = RElem::prim((0x0088, 0x0140), "UI", b"1.2.3.44");
    // first tags: each primitive VR's standard tag, plus virtual-VR classes, special lookups, unknown
    let mut firsts: Vec<((u16, u16), &'static str)> = PRIM_VRS.iter().map(|v| (std_tag(v), *v)).collect();
    firsts.extend([
        ((0x0028, 0x0106), "US"), // xs
        ((0x0028, 0x3006), "OW"), // lt
        ((0x5400, 0x1010), "OW"), // ox
        ((0x6002, 0x3000), "OW"), // ox, repeating group
        ((0x7FE0, 0x0010), "OW"), // px
        ((0x0008, 0x0000), "UL"), // group length
        ((0x0009, 0x0010), "LO"), // private creator
        ((0x0009, 0x1001), "UN"), // private data element: no entry
        ((0x0012, 0x9900), "UN"), // unknown to the dictionary
    ]);
    for code in even_codes() {
        let len = u16::from_le_bytes(code) as usize;
        for (tag, vr) in &firsts {
            for prefix in [false, true] {
                let first = RElem { tag: *tag, vr: rds::vr(vr), val: RVal::Prim(filler(vr, len)) };
                let mut elems = vec![first];
                if *tag < (0x0088, 0x0140) {
                    elems.push(sentinel.clone());
                }
                let mut bytes = if prefix { ITEM_DELIM_LE.to_vec() } else { vec![] };
                let body = rds::encode_items(Ts::ImplicitLE, &elems);
                assert_eq!(&body[4..6], &code);
                bytes.extend(body);
                out.push(Stream {
                    family: "implicit-length-spells-vr",
                    label: format!("({:04X},{:04X}) len={len} spells {}{}", tag.0, tag.1, rds::vr_str(code), if prefix { " after item delimiter" } else { "" }),
                    explicit: false,
                    bytes,
                    extra: json!({"spelled": rds::vr_str(code), "first_entry": enc_amb::entry_vr(dict, *tag).unwrap_or("none".into()), "prefix_item_delimiter": prefix}),
                });
            }
        }
        // first element a defined-length sequence whose length spells the code: one defined-length
        // item holding one LO element that fills it
        for prefix in [false, true] {
            let inner_len = len - 8 - 8;
            let inner = RElem { tag: (0x0008, 0x0070), vr: *b"LO", val: RVal::Prim(filler("LO", inner_len)) };
            let sq = RElem { tag: SQ_STD, vr: *b"SQ", val: RVal::Seq { explicit: true, items: vec![RItem { explicit: true, elems: vec![inner] }] } };
            let mut bytes = if prefix { ITEM_DELIM_LE.to_vec() } else { vec![] };
            let body = rds::encode_items(Ts::ImplicitLE, &[sq, sentinel.clone()]);
            assert_eq!(&body[4..6], &code);
            bytes.extend(body);
            out.push(Stream {
                family: "implicit-length-spells-vr",
                label: format!("defined-length SQ len={len} spells {}", rds::vr_str(code)),
                explicit: false,
                bytes,
                extra: json!({"spelled": rds::vr_str(code), "first_entry": "SQ", "prefix_item_delimiter": prefix}),
            });
        }
    }
    out
}

/// Explicit streams whose first element carries a VR other than its dictionary VR (legal: e.g. UN),
/// where the probe is undecidable: they exist to show that the filter is live, and are skipped.
fn explicit_other_vr_streams(dict: &Dict) -> Vec<Stream> {
    let mut out = vec![];
    for v in PRIM_VRS {
        for other in ["UN", "OB", "LO", "US"] {
            let tag = std_tag(v);
            let elems = vec![RElem { tag, vr: rds::vr(other), val: RVal::Prim(filler(other, 4)) }, RElem::prim((0x0088, 0x0140), "UI", b"1.2.3.44")];
            out.push(Stream {
                family: "explicit-first-vr-differs-from-dictionary",
                label: format!("({:04X},{:04X}) dictionary {v} written as {other}", tag.0, tag.1),
                explicit: true,
                bytes: rds::encode_items(Ts::ExplicitLE, &elems),
                extra: json!({"spelled": other, "first_entry": enc_amb::entry_vr(dict, tag).unwrap_or("none".into()), "prefix_item_delimiter": false}),
            });
        }
    }
    out
}

/// one element of a hand-composed stream: tag, VR written on the wire (explicit), value bytes
type El = ((u16, u16), &'static str, Vec<u8>);

fn el(tag: (u16, u16), vr: &'static str, v: &[u8]) -> El {
    (tag, vr, v.to_vec())
}

/// Streams of 2-4 elements that walk the adaptive decoder's state machine beyond the first probe:
/// (a) 1-2 leading elements without dictionary entry (private data elements without / with their
/// creator, unknown even-group tags), (b) known standard tags whose explicit VR is legal but not the
/// dictionary's (UN for anything, SH for LO, ST for LT, OB<->OW, US<->SS, xs/lt attributes),
/// (c) an ordinary element; also (b) before (a); each behind nothing, a leading item delimiter, a
/// known sequence (undefined / defined lengths) and a sequence on a tag without entry. The same
/// element lists are also encoded in Implicit VR LE.
fn lock_sequence_streams(dict: &Dict) -> Vec<Stream> {
    let wire_a = ["LO", "UN", "US"];
    let val = |vr: &str| -> Vec<u8> {
        match vr {
            "US" | "SS" | "OW" => vec![1, 0],
            "OB" | "UN" => vec![1, 2],
            _ => b"AB".to_vec(),
        }
    };
    // (a) segments in group 0009 / 0012 (after group 0008, before group 0018)
    let mut a_segs: Vec<(&'static str, Vec<El>)> = vec![];
    for w in wire_a {
        a_segs.push(("private-no-creator", vec![el((0x0009, 0x1001), w, &val(w))]));
        a_segs.push(("creator-then-private", vec![el((0x0009, 0x0010), "LO", b"VX"), el((0x0009, 0x1001), w, &val(w))]));
        a_segs.push(("unknown-even-group", vec![el((0x0012, 0x9900), w, &val(w))]));
        a_segs.push(("private-then-unknown", vec![el((0x0009, 0x1001), w, &val(w)), el((0x0012, 0x9901), "US", &[2, 0])]));
    }
    // (b) known tags with a wire VR that is not the dictionary's; groups >= 0018 (after the (a) segment)
    let b_late: Vec<(&'static str, El)> = vec![
        ("LO-as-SH", el((0x0018, 0x1030), "SH", b"AB")),
        ("LO-as-UN", el((0x0018, 0x1030), "UN", b"AB")),
        ("IS-as-UN", el((0x0020, 0x0013), "UN", b"12")),
        ("IS-as-LO", el((0x0020, 0x0013), "LO", b"12")),
        ("LT-as-ST", el((0x0020, 0x4000), "ST", b"AB")),
        ("LT-as-UN", el((0x0020, 0x4000), "UN", b"AB")),
        ("US-as-SS", el((0x0028, 0x0010), "SS", &[1, 0])),
        ("US-as-UN", el((0x0028, 0x0010), "UN", &[1, 0])),
        ("xs-as-SS", el((0x0028, 0x0106), "SS", &[0xFE, 0xFF])),
        ("xs-as-US", el((0x0028, 0x0106), "US", &[1, 0])),
        ("xs-as-UN", el((0x0028, 0x0106), "UN", &[1, 0])),
        ("xs-as-OW", el((0x0028, 0x0106), "OW", &[1, 0])),
        ("OW-as-OB", el((0x0028, 0x1201), "OB", &[1, 2])),
        ("lt-as-OB", el((0x0028, 0x3006), "OB", &[1, 2])),
        ("lt-as-US", el((0x0028, 0x3006), "US", &[1, 0])),
        ("lt-as-OW", el((0x0028, 0x3006), "OW", &[1, 0])),
        ("OB-as-OW", el((0x0042, 0x0011), "OW", &[1, 0])),
        ("OB-as-UN", el((0x0042, 0x0011), "UN", &[1, 2])),
    ];
    // (b) in group 0008, for the order (b) before (a)
    let b_early: Vec<(&'static str, El)> = vec![
        ("CS-as-UN", el((0x0008, 0x0008), "UN", b"AB")),
        ("UI-as-UN", el((0x0008, 0x0018), "UN", b"1.2\0")),
        ("LO-as-SH", el((0x0008, 0x0070), "SH", b"AB")),
        ("LO-as-UN", el((0x0008, 0x0070), "UN", b"AB")),
        ("US-as-SS", el((0x0008, 0x0301), "SS", &[1, 0])),
        ("OB-as-OW", el((0x0008, 0x041B), "OW", &[1, 0])),
        ("LO-as-LO", el((0x0008, 0x0070), "LO", b"AB")),
    ];
    let c = el((0x0088, 0x0140), "UI", b"1.2.3.44");
    let to_relems = |els: &[El]| -> Vec<RElem> { els.iter().map(|(t, v, b)| RElem { tag: *t, vr: rds::vr(v), val: RVal::Prim(b.clone()) }).collect() };
    // what stands in first position
    let sq = |tag: (u16, u16), explicit: bool| RElem {
        tag,
        vr: *b"SQ",
        val: RVal::Seq { explicit, items: vec![RItem { explicit, elems: vec![RElem::prim((0x0008, 0x0100), "SH", b"X ")] }] },
    };
    let prefixes: Vec<(&'static str, bool, Vec<RElem>)> = vec![
        ("none", false, vec![]),
        ("item-delimiter", true, vec![]),
        ("known-sq-undefined", false, vec![sq((0x0008, 0x0006), false)]),
        ("known-sq-defined", false, vec![sq((0x0008, 0x0006), true)]),
        ("no-entry-sq-undefined", false, vec![sq((0x0007, 0x1080), false)]),
    ];
    let mut lists: Vec<(String, &'static str, &'static str, &'static str, Vec<El>)> = vec![];
    for (ak, a) in &a_segs {
        for (bk, b) in &b_late {
            let mut v = a.clone();
            v.push(b.clone());
            v.push(c.clone());
            lists.push((format!("{ak}[{}] {bk}", a.last().unwrap().1), "a-b-c", ak, bk, v));
        }
        // two (b) elements in a row
        for w in b_late.windows(2).step_by(3) {
            if w[0].1 .0 < w[1].1 .0 {
                let mut v = a.clone();
                v.push(w[0].1.clone());
                v.push(w[1].1.clone());
                lists.push((format!("{ak}[{}] {} {}", a.last().unwrap().1, w[0].0, w[1].0), "a-b-b", ak, w[0].0, v));
            }
        }
        for (bk, b) in &b_early {
            let mut v = vec![b.clone()];
            v.extend(a.clone());
            v.push(c.clone());
            lists.push((format!("{bk} {ak}[{}]", a.last().unwrap().1), "b-a-c", ak, bk, v));
        }
    }
    let mut out = vec![];
    for (pk, delim, pre) in &prefixes {
        for (label, order, ak, bk, els) in &lists {
            let mut tree = pre.clone();
            tree.extend(to_relems(els));
            for explicit in [true, false] {
                let ts = if explicit { Ts::ExplicitLE } else { Ts::ImplicitLE };
                let mut bytes = if *delim { ITEM_DELIM_LE.to_vec() } else { vec![] };
                bytes.extend(rds::encode_items(ts, &tree));
                let first = tree[0].tag;
                out.push(Stream {
                    family: "lock-sequence",
                    label: format!("[{pk}] {label}"),
                    explicit,
                    bytes,
                    extra: json!({"spelled": "-", "first_entry": enc_amb::entry_vr(dict, first).unwrap_or("none".into()), "prefix_item_delimiter": *delim,
                                  "prefix": pk, "order": order, "a_kind": ak, "b_case": bk}),
                });
            }
        }
    }
    out
}

/// Implicit streams where the probe is decided by an unambiguous first element and a *later*
/// element's length spells a VR compatible with its own dictionary entry: the lock must hold.
fn implicit_later_spelled_streams(dict: &Dict) -> Vec<Stream> {
    let mut out = vec![];
    let firsts: Vec<(&'static str, bool, Vec<RElem>)> = vec![
        ("known-UI", false, vec![RElem::prim((0x0008, 0x0005), "CS", b"ISO_IR 100")]),
        ("known-US", false, vec![RElem::prim((0x0008, 0x0301), "US", &[1, 0])]),
        ("private-no-creator", false, vec![RElem::prim((0x0007, 0x1001), "UN", &[1, 2])]),
        ("group-length", false, vec![RElem::prim((0x0008, 0x0000), "UL", &[4, 0, 0, 0])]),
        ("item-delimiter+known", true, vec![RElem::prim((0x0008, 0x0301), "US", &[1, 0])]),
        ("known-sq", false, vec![RElem { tag: (0x0008, 0x0006), vr: *b"SQ", val: RVal::Seq { explicit: false, items: vec![RItem { explicit: false, elems: vec![] }] } }]),
    ];
    for code in even_codes() {
        let len = u16::from_le_bytes(code) as usize;
        let vr: &'static str = rds::VRS.iter().find(|s| s.as_bytes() == code).unwrap();
        let tag = std_tag(vr);
        for (fk, delim, first) in &firsts {
            let mut elems = first.clone();
            elems.push(RElem { tag, vr: code, val: RVal::Prim(filler(vr, len)) });
            elems.push(RElem::prim((0x0088, 0x0140), "UI", b"1.2.3.44"));
            let mut bytes = if *delim { ITEM_DELIM_LE.to_vec() } else { vec![] };
            bytes.extend(rds::encode_items(Ts::ImplicitLE, &elems));
            out.push(Stream {
                family: "implicit-later-length-spells-vr",
                label: format!("{fk}, then ({:04X},{:04X}) len={len} spells {vr}", tag.0, tag.1),
                explicit: false,
                bytes,
                extra: json!({"spelled": vr, "first_entry": enc_amb::entry_vr(dict, elems[0].tag).unwrap_or("none".into()), "prefix_item_delimiter": *delim, "prefix": fk}),
            });
        }
    }
    out
}

fn universe_streams(dict: &Dict) -> Vec<Stream> {
    let mut uni = ds1();
    uni.extend(ds_nested(2));
    uni.extend(ds_nested(3));
    uni.extend(ds2());
    let mut out = vec![];
    for (i, nodes) in uni.iter().enumerate() {
        let nc = count_containers(nodes);
        let masks: Vec<u32> = if nc == 0 { vec![0] } else { vec![0, (1u32 << nc) - 1] };
        for mask in masks {
            let tree = to_ref(nodes, mask);
            for explicit in [true, false] {
                let ts = if explicit { Ts::ExplicitLE } else { Ts::ImplicitLE };
                let body = rds::encode_items(ts, &tree);
                // the item-delimiter prefix variant only for single-element sets (keeps the run small)
                let prefixes: &[bool] = if nodes.len() == 1 { &[false, true] } else { &[false] };
                for &prefix in prefixes {
                    let mut bytes = if prefix { ITEM_DELIM_LE.to_vec() } else { vec![] };
                    bytes.extend(&body);
                    let first = nodes[0].tag();
                    out.push(Stream {
                        family: "universe",
                        label: format!("ds{i} mask{mask} {}", labels(nodes)),
                        explicit,
                        bytes,
                        extra: json!({"spelled": "-", "first_entry": enc_amb::entry_vr(dict, first).unwrap_or("none".into()), "prefix_item_delimiter": prefix,
                                      "first_is_sequence": matches!(nodes[0], Node::Seq { .. }), "first_is_pixel": matches!(nodes[0], Node::Pix { .. }), "defined_lengths": mask != 0}),
                    });
                }
            }
        }
    }
    out
}

fn merge(a: &Value, b: Value) -> Value {
    let mut m = a.as_object().unwrap().clone();
    for (k, v) in b.as_object().unwrap() {
        m.insert(k.clone(), v.clone());
    }
    Value::Object(m)
}

fn run_stream(l: &mut Local, dict: &Dict, idx: usize, s: &Stream) {
    let real_uid = if s.explicit { TS4[1] } else { TS4[0] };
    // the ambiguity clause, from the dictionary table
    let Some((tag, after)) = first_element(&s.bytes) else {
        l.check.machinery_error(&format!("stream {idx} has no element"));
        return;
    };
    // The statement's only exemption: an implicit stream whose first length bytes spell a VR code
    // compatible with the attribute's dictionary entry. An explicit stream whose first VR
    // contradicts the dictionary is NOT exempt (the statement requires it to be read as explicit).
    let skip = !s.explicit && enc_amb::implicit_is_ambiguous(dict, tag, after);
    let first_probe = enc_amb::probe_class(dict, tag, after);
    // the regular decoder on the syntax the stream is really in (once per stream)
    let mut reference: Option<Vec<Tok>> = None;
    for (di, declared) in [TS4[1], TS4[0]].iter().enumerate() {
        let case_id = format!("{}/{idx}/declared{di}", s.family);
        if !l.want(&case_id) {
            continue;
        }
        l.eval();
        if skip {
            l.outcome_with("skipped-implicit-length-spells-compatible-vr", || json!({"case": case_id, "stream": s.label}));
            continue;
        }
        let class = merge(&s.extra, json!({"family": s.family, "first_probe": first_probe, "encoding": if s.explicit { "explicit-le" } else { "implicit-le" }, "declared": if di == 0 { "explicit-le" } else { "implicit-le" }}));
        let detail = |m: String| json!({"stream": s.label, "head": hex(&s.bytes[..s.bytes.len().min(64)]), "message": m});
        if reference.is_none() {
            match guard(|| read_tokens(&s.bytes, real_uid, false)) {
                Ok(Ok(t)) => reference = Some(t),
                Ok(Err(m)) | Err(m) => {
                    l.check.machinery_error(&format!("reference reader failed on {}: {m}", s.label));
                    return;
                }
            }
        }
        let reference = reference.as_ref().unwrap();
        if matches!(reference.last(), Some(Tok::Err(_))) {
            // the regular decoder itself rejects this stream: the statement says nothing about
            // invalid input; the same outcome is still required below, but it is counted apart
            l.outcome("reference-reader-error");
        }
        l.nontrivial(&(s.explicit, di, &s.bytes));
        match guard(|| read_tokens(&s.bytes, declared, true)) {
            Err(p) => {
                l.outcome("panic");
                l.fail(&case_id, merge(&class, json!({"kind": "panic"})), detail(p));
            }
            Ok(Err(m)) => {
                l.outcome("flexible-reader-failed");
                l.fail(&case_id, merge(&class, json!({"kind": "reader"})), detail(m));
            }
            Ok(Ok(got)) => {
                if &got == reference {
                    l.outcome_with(if s.explicit { "identical-explicit" } else { "identical-implicit" }, || json!({"case": case_id, "stream": s.label, "tokens": reference.len()}));
                } else {
                    l.outcome("token-streams-differ");
                    let i = got.iter().zip(reference).position(|(a, b)| a != b).unwrap_or(got.len().min(reference.len()));
                    l.fail(
                        &case_id,
                        merge(&class, json!({"kind": "tokens-differ", "at_first_token": i <= 1})),
                        detail(format!("token {i}: regular decoder {} / flexible {} (token counts {} / {})", reference.get(i).map(show).unwrap_or("<end>".into()), got.get(i).map(show).unwrap_or("<end>".into()), reference.len(), got.len())),
                    );
                }
            }
        }
    }
}

fn main() {
    let check = Check::from_args("C08", Level::Exploration);
    check.set_rule("streams: (a) every data set of DS(1,0) ∪ DS_r(2,2) ∪ DS_r(3,2) ∪ DS(2,0), all-undefined and all-defined length shapes, reference-encoded in Explicit VR LE and Implicit VR LE, single-element sets also behind a leading item delimiter; (b) implicit streams whose first 32-bit length has low 16 bits spelling each of the nine VR codes an even length can spell (DA DS DT FL FD LO LT PN TM) x first tag of every dictionary class (33 exact VRs, xs, lt, ox, ox repeating group, px, group length, private creator, private, unknown) and a defined-length sequence, with and without a leading item delimiter; (c) explicit streams whose first explicit VR differs from the dictionary VR; (d) 2-4 element streams in both encodings: 1-2 leading elements without dictionary entry (private without/with creator, unknown tags) x known tags written with a legal VR that is not the dictionary's (UN, SH for LO, ST for LT, OB<->OW, US<->SS, xs, lt) x an ordinary element, also with the known-tag element first, each behind {nothing, item delimiter, known sequence undefined/defined, sequence without entry}; (e) implicit streams decided by an unambiguous first element whose later element's length spells a compatible VR; each read by DataSetReader with flexible_decoding on (declared Explicit VR LE and declared Implicit VR LE) and off (true syntax); a case is (stream, declared syntax); the statement's exemption (implicit stream whose first length bytes spell a VR compatible with the entry) is computed by an independent dictionary-based filter, counted and skipped; nothing else is exempt; non-trivial = both readers ran; distinct by (encoding, declared, stream bytes)");
    check.assume("vx-ref encoder; the extracted dictionary table and the compatibility reading of PS3.6 virtual VRs (xs = US|SS, ox/px = OB|OW, lt = US|OW); a tag without dictionary entry is compatible with any code (nothing can contradict it)");
    check.assume("quick = thorough: the universe is enumerated completely in both tiers");
    let dict = Dict::load();
    let mut streams = universe_streams(&dict);
    let n_uni = streams.len();
    streams.extend(spelled_length_streams(&dict));
    let n_spelled = streams.len() - n_uni;
    streams.extend(explicit_other_vr_streams(&dict));
    let n_other = streams.len() - n_uni - n_spelled;
    streams.extend(lock_sequence_streams(&dict));
    let n_lock = streams.len() - n_uni - n_spelled - n_other;
    streams.extend(implicit_later_spelled_streams(&dict));
    let n_later = streams.len() - n_uni - n_spelled - n_other - n_lock;
    check.extra("streams", json!({"universe": n_uni, "implicit_length_spells_vr": n_spelled, "explicit_first_vr_differs": n_other, "lock_sequence": n_lock, "implicit_later_length_spells_vr": n_later}));
    check.par_range(streams.len() as u64, |l, i| run_stream(l, &dict, i as usize, &streams[i as usize]));
    check.finish();
}
