//! C23 — DICOM JSON serialisation round-trips; deserialising any JSON text never panics.
#[path = "../json_uni.rs"]
mod json_uni;

use dicom_object::InMemDicomObject;
use json_uni::*;
use vx_data::rt::describe;
use vx_data::*;
use vx_kit::{guard, json, Check, Level, Local};

fn class_with(base: &serde_json::Value, extra: serde_json::Value) -> serde_json::Value {
    let mut m = base.as_object().unwrap().clone();
    for (k, v) in extra.as_object().unwrap() {
        m.insert(k.clone(), v.clone());
    }
    serde_json::Value::Object(m)
}

/// data set -> to_string -> from_str and data set -> to_value -> from_value
fn roundtrip_case(l: &mut Local, idx: usize, nodes: &[Node]) {
    let desc = describe(nodes);
    let obj = to_obj(nodes);
    let want = canon(&obj);
    for entry in ["string", "value"] {
        let case_id = format!("rt/ds{idx}/{entry}");
        if !l.want(&case_id) {
            continue;
        }
        l.eval();
        l.nontrivial(&case_id);
        let base = class_with(&desc, json!({"entry": entry, "family": "roundtrip"}));
        let text: String;
        let back: Result<Result<InMemDicomObject, String>, String> = if entry == "string" {
            match guard(|| dicom_json::to_string(&obj)) {
                Err(p) => {
                    l.outcome("serialise-panic");
                    l.fail(&case_id, class_with(&base, json!({"stage": "serialise", "kind": "panic"})), json!({"dataset": labels(nodes), "message": p}));
                    continue;
                }
                Ok(Err(e)) => {
                    l.outcome("serialise-err");
                    l.fail(&case_id, class_with(&base, json!({"stage": "serialise", "kind": "err"})), json!({"dataset": labels(nodes), "message": e.to_string()}));
                    continue;
                }
                Ok(Ok(s)) => {
                    text = s;
                    guard(|| dicom_json::from_str::<InMemDicomObject>(&text).map_err(|e| e.to_string()))
                }
            }
        } else {
            match guard(|| dicom_json::to_value(&obj)) {
                Err(p) => {
                    l.outcome("serialise-panic");
                    l.fail(&case_id, class_with(&base, json!({"stage": "serialise", "kind": "panic"})), json!({"dataset": labels(nodes), "message": p}));
                    continue;
                }
                Ok(Err(e)) => {
                    l.outcome("serialise-err");
                    l.fail(&case_id, class_with(&base, json!({"stage": "serialise", "kind": "err"})), json!({"dataset": labels(nodes), "message": e.to_string()}));
                    continue;
                }
                Ok(Ok(v)) => {
                    text = v.to_string();
                    guard(|| dicom_json::from_value::<InMemDicomObject>(v).map_err(|e| e.to_string()))
                }
            }
        };
        let detail = |m: String| json!({"dataset": labels(nodes), "json": text.chars().take(400).collect::<String>(), "message": m});
        match back {
            Err(p) => {
                l.outcome("deserialise-panic");
                l.fail(&case_id, class_with(&base, json!({"stage": "deserialise", "kind": "panic"})), detail(p));
            }
            Ok(Err(e)) => {
                l.outcome("deserialise-err");
                l.fail(&case_id, class_with(&base, json!({"stage": "deserialise", "kind": "err"})), detail(e));
            }
            Ok(Ok(b)) => match json_equal(&want, &canon(&b)) {
                Ok(()) => l.outcome_with("roundtrip-equal", || json!({"case": case_id, "dataset": labels(nodes), "json": text.chars().take(200).collect::<String>()})),
                Err((k, m)) => {
                    l.outcome("roundtrip-differs");
                    l.fail(&case_id, class_with(&base, json!({"stage": "compare", "kind": k})), detail(m));
                }
            },
        }
    }
}

/// One JSON text through from_str and (when it is JSON at all) from_value: Ok or Err, no panic.
/// What is accepted must serialise again and come back equal.
fn doc_case(l: &mut Local, case_id: &str, class: serde_json::Value, text: &str) {
    if !l.want(case_id) {
        return;
    }
    l.eval();
    let detail = |m: String| json!({"json": text.chars().take(400).collect::<String>(), "message": m});
    let r = guard(|| dicom_json::from_str::<InMemDicomObject>(text).map_err(|e| e.to_string()));
    let obj = match r {
        Err(p) => {
            l.outcome("doc-from_str-panic");
            l.fail(case_id, class_with(&class, json!({"stage": "from_str", "kind": "panic"})), detail(p));
            None
        }
        Ok(Err(_)) => {
            l.outcome("doc-rejected");
            None
        }
        Ok(Ok(o)) => Some(o),
    };
    // from_value on the same document
    if let Ok(v) = serde_json::from_str::<serde_json::Value>(text) {
        match guard(|| dicom_json::from_value::<InMemDicomObject>(v).map_err(|e| e.to_string())) {
            Err(p) => {
                l.outcome("doc-from_value-panic");
                l.fail(case_id, class_with(&class, json!({"stage": "from_value", "kind": "panic"})), detail(p));
            }
            Ok(Err(_)) => l.outcome("doc-value-rejected"),
            Ok(Ok(_)) => l.outcome("doc-value-accepted"),
        }
    }
    let Some(obj) = obj else { return };
    l.nontrivial(&text);
    // InlineBinary on a VR that is not binary yields bytes under a text/numeric VR: the values are
    // not "in the variant the VR prescribes", so only absence of panics is required further on
    let confused = class.get("confused").and_then(|v| v.as_bool()).unwrap_or(false);
    // second generation: what was accepted is a data set like any other
    let want = canon(&obj);
    match guard(|| dicom_json::to_string(&obj).map_err(|e| e.to_string())) {
        Err(p) => {
            l.outcome("doc-reserialise-panic");
            l.fail(case_id, class_with(&class, json!({"stage": "reserialise", "kind": "panic"})), detail(p));
        }
        Ok(Err(e)) => {
            l.outcome("doc-reserialise-err");
            l.fail(case_id, class_with(&class, json!({"stage": "reserialise", "kind": "err"})), detail(e));
        }
        Ok(Ok(t2)) => match guard(|| dicom_json::from_str::<InMemDicomObject>(&t2).map_err(|e| e.to_string())) {
            Err(p) => {
                l.outcome("doc-reparse-panic");
                l.fail(case_id, class_with(&class, json!({"stage": "reparse", "kind": "panic"})), detail(format!("{p}; second text {t2}")));
            }
            Ok(_) if confused => l.outcome("doc-accepted-bytes-under-non-binary-vr"),
            Ok(Err(e)) => {
                l.outcome("doc-reparse-err");
                l.fail(case_id, class_with(&class, json!({"stage": "reparse", "kind": "err"})), detail(format!("{e}; second text {t2}")));
            }
            Ok(Ok(b)) => match json_equal(&want, &canon(&b)) {
                Ok(()) => l.outcome_with("doc-accepted-and-stable", || json!({"case": case_id, "json": text, "again": t2})),
                Err((k, m)) => {
                    l.outcome("doc-second-generation-differs");
                    l.fail(case_id, class_with(&class, json!({"stage": "reparse-compare", "kind": k})), detail(format!("{m}; second text {t2}")));
                }
            },
        },
    }
}

fn eclass(e: &ElemDoc, family: &str, key: &str) -> serde_json::Value {
    json!({"family": family, "doc_vr": e.vr, "doc_value": e.value, "doc_inline": e.inline, "doc_bulk": e.bulk, "key": key, "confused": e.bytes_under_non_binary_vr()})
}

fn main() {
    let check = Check::from_args("C23", Level::Exploration);
    check.set_rule("(a) every data set of DS(1,0) ∪ DS_r(2,2) without encapsulated pixel data, plus extreme atoms (non-finite floats, 64-bit integers around 2^31/2^53/limits, PN with 1-3 component groups, AT, typed values without items, trailing padding), alone and inside a sequence item (thorough: + DS(2,0) ∪ DS_r(3,2)), x {to_string/from_str, to_value/from_value}; (b) the JSON grammar family: element objects vr ∈ {34 VRs, \"XX\", number, missing} x Value ∈ 10 forms x InlineBinary ∈ {missing, valid, invalid, number} x BulkDataURI ∈ {missing, present}, under 5 key forms, in every member order, nested in a sequence item (nesting 2 with a reduced family), pairs of elements over a reduced family incl. duplicate keys, duplicate members, and non-object documents; a case is one document through one entry point; non-trivial = a data set was produced");
    check.assume("panics are caught by catch_unwind in-process (no abort or stack overflow is expected from serde_json, whose recursion limit is 128); equality is canon-equality with trailing padding removed and IS/DS compared numerically");
    let uni = universe(check.thorough());
    check.extra("universe_datasets", json!(uni.len()));
    check.par_range(uni.len() as u64, |l, i| roundtrip_case(l, i as usize, &uni[i as usize]));

    // (b) grammar family
    let full = elem_family(&all_vr_choices(), &VALUE_FORMS, &INLINE_FORMS, &[false, true]);
    let reduced_vrs: Vec<Option<&str>> = if check.thorough() {
        vec![Some("LO"), Some("US"), Some("SQ"), Some("PN"), Some("AT"), Some("OB"), Some("UN"), Some("FD"), Some("DS"), Some("XX"), None]
    } else {
        vec![Some("LO"), Some("US"), Some("SQ"), Some("OB"), Some("UN"), None]
    };
    let reduced = elem_family(&reduced_vrs, &VALUE_FORMS[..8], &INLINE_FORMS[..3], &[false, true]);
    check.extra("grammar_elements_full", json!(full.len()));
    check.extra("grammar_elements_reduced", json!(reduced.len()));
    // single element x key x member order
    check.par_range(full.len() as u64, |l, i| {
        let e = &full[i as usize];
        for (kn, key) in KEYS {
            for (pi, order) in permutations(e.members.len()).iter().enumerate() {
                doc_case(l, &format!("g1/e{i}/{kn}/p{pi}"), eclass(e, "single", kn), &format!("{{\"{key}\":{}}}", e.text(order)));
            }
        }
        // inside a sequence item, and two levels deep
        doc_case(l, &format!("g1/e{i}/nested1"), eclass(e, "nested1", "8hex"), &format!("{{\"00081140\":{{\"vr\":\"SQ\",\"Value\":[{{\"00100010\":{}}}]}}}}", e.plain()));
        // duplicate member
        if let Some((n, v)) = e.members.first() {
            let dup = format!("{{\"00100010\":{{\"{n}\":{v},{}}}}}", e.plain().trim_start_matches('{').trim_end_matches('}'));
            doc_case(l, &format!("g1/e{i}/dup-member"), eclass(e, "dup-member", "8hex"), &dup);
        }
    });
    check.par_range(reduced.len() as u64, |l, i| {
        let e = &reduced[i as usize];
        doc_case(l, &format!("g2/e{i}/nested2"), eclass(e, "nested2", "8hex"), &format!("{{\"00081140\":{{\"vr\":\"SQ\",\"Value\":[{{}},{{\"00081115\":{{\"vr\":\"SQ\",\"Value\":[{{\"00100010\":{}}}]}}}}]}}}}", e.plain()));
        for (j, f) in reduced.iter().enumerate() {
            for (kn, k1, k2) in [("asc", "00100010", "00100020"), ("desc", "00100020", "00100010"), ("dup", "00100010", "00100010")] {
                let mut c = eclass(e, "pair", kn);
                c["confused"] = json!(e.bytes_under_non_binary_vr() || f.bytes_under_non_binary_vr());
                doc_case(l, &format!("g2/e{i}/f{j}/{kn}"), c, &format!("{{\"{k1}\":{},\"{k2}\":{}}}", e.plain(), f.plain()));
            }
        }
    });
    // documents that are not data set objects, elements that are not objects
    {
        let mut l = check.local();
        let odd = [
            "", " ", "{}", "[]", "null", "1", "\"s\"", "true", "{", "{\"00100010\"}", "{\"00100010\":1}", "{\"00100010\":[]}", "{\"00100010\":null}", "{\"00100010\":\"x\"}", "[{}]",
            "{\"00100010\":{\"vr\":\"SQ\",\"Value\":[1]}}", "{\"00100010\":{\"vr\":\"SQ\",\"Value\":[[]]}}", "{\"00100010\":{\"vr\":\"SQ\",\"Value\":[null]}}",
            "{\"00100010\":{\"vr\":\"PN\",\"Value\":[{\"Alphabetic\":1}]}}", "{\"00100010\":{\"vr\":\"PN\",\"Value\":[{\"Ideographic\":\"x\"}]}}", "{\"00100010\":{\"vr\":\"PN\",\"Value\":[{\"Alphabetic\":\"a\",\"Phonetic\":\"p\"}]}}",
            "{\"00100010\":{\"vr\":\"AT\",\"Value\":[\"0010\"]}}", "{\"00100010\":{\"vr\":\"AT\",\"Value\":[\"(0010,0010)\"]}}", "{\"00100010\":{\"vr\":\"AT\",\"Value\":[\"é0100010\"]}}",
            "{\"00100010\":{\"vr\":\"US\",\"Value\":[65536]}}", "{\"00100010\":{\"vr\":\"US\",\"Value\":[1e400]}}", "{\"00100010\":{\"vr\":\"FD\",\"Value\":[\"x\"]}}", "{\"00100010\":{\"vr\":\"UV\",\"Value\":[\"18446744073709551616\"]}}",
            "{\"00100010\":{\"vr\":\"SV\",\"Value\":[-9223372036854775808]}}", "{\"00100010\":{\"vr\":\"FL\",\"Value\":[1e39]}}", "{\"00100010\":{\"vr\":\"IS\",\"Value\":[1e400]}}",
            "{\"00100010\":{\"vr\":\"OB\",\"BulkDataURI\":5}}", "{\"00100010\":{\"vr\":\"lo\"}}", "{\"00100010\":{\"vr\":\"\"}}", "{\"é0100010\":{\"vr\":\"LO\"}}", "{\"abc\u{e9}xyz\":{\"vr\":\"LO\"}}",
            "{\"(0010,0010)\":{\"vr\":\"LO\"}}", "{\"0010,0010\":{\"vr\":\"LO\"}}", "{\"PatientName\":{\"vr\":\"PN\"}}",
        ];
        for (i, t) in odd.iter().enumerate() {
            doc_case(&mut l, &format!("g3/odd{i}"), json!({"family": "odd", "doc_vr": "-", "doc_value": "-", "doc_inline": "-", "doc_bulk": false, "key": "-"}), t);
        }
        // deep nesting up to and past serde_json's recursion limit
        for depth in [10usize, 60, 70, 200] {
            let mut t = String::from("{\"00100010\":{\"vr\":\"LO\"}}");
            for _ in 0..depth {
                t = format!("{{\"00081140\":{{\"vr\":\"SQ\",\"Value\":[{t}]}}}}");
            }
            doc_case(&mut l, &format!("g3/deep{depth}"), json!({"family": "deep", "doc_vr": "SQ", "doc_value": depth, "doc_inline": "-", "doc_bulk": false, "key": "8hex"}), &t);
        }
    }
    check.finish();
}
