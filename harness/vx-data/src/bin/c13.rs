//! C13 — attribute operations follow their documented semantics.
//!
//! Explicit-state breadth-first search over operation histories. A state is a history
//! (initial object + operations) re-applied to a fresh object; states are deduplicated by a key of
//! everything observable (tags, VRs, value kinds and bytes, recorded lengths, and the bytes written
//! with the NoChange strategy, which is where the hidden `charset_changed` flag shows).
//!
//! Oracle 1 (every transition): a map-of-sequences reference model written from the
//! `AttributeAction` / `ApplyOp` / `PrimitiveValue::extend_*` / `truncate` documentation. It is used as
//! a one-step simulation: M = abstract(real state); model_apply(M, op) must equal
//! abstract(apply(real state, op)); by induction from the initial states (whose abstraction is
//! checked against the independent `Node` description) the real object follows the model along
//! every history. An operation that returns `Err` must leave the object unchanged.
//! Oracle 2 (every distinct state): every TS4 x writer mode writes without panic/error, the output
//! passes the strict PS3.5 parser of vx-ref, carries the expected bytes and reads back canon-equal.

use dicom_core::header::{HasLength, Header};
use dicom_core::ops::{ApplyOp, AttributeAction, AttributeOp, AttributeSelector, AttributeSelectorStep};
use dicom_core::value::{PrimitiveValue, Value};
use dicom_core::{Tag, VR};
use dicom_object::InMemDicomObject;
use std::collections::{BTreeMap, HashSet};
use std::sync::Mutex;
use vx_data::*;
use vx_kit::{guard, json, Check, Level, Local};
use vx_ref::ds::{self as rds, RElem, RItem, RVal};

type T2 = (u16, u16);

// ---------------------------------------------------------------------------------------------
// Alphabet
// ---------------------------------------------------------------------------------------------

const T_TEXT: T2 = (0x0008, 0x0070); // Manufacturer, LO
const T_NUM: T2 = (0x0028, 0x0010); // Rows, US
const T_CS: T2 = (0x0008, 0x0005); // Specific Character Set, CS
const T_SQ: T2 = SQ_STD; // Referenced Image Sequence, SQ
const T_SQ2: T2 = SQ_STD2; // Referenced Series Sequence, SQ (used inside items)
const T_PRIV: T2 = SQ_PRIVATE; // (0009,1080) private
const T_UNK: T2 = (0x0012, 0x9900); // even group, not in the dictionary
const T_PIX: T2 = (0x7FE0, 0x0010);
const LEAF: T2 = T_TEXT; // leaf attribute addressed inside items

#[derive(Clone, Debug)]
struct Sel {
    name: &'static str,
    path: Vec<(T2, u32)>,
    leaf: T2,
}

fn selectors() -> Vec<Sel> {
    let s = |name, path: Vec<(T2, u32)>, leaf| Sel { name, path, leaf };
    vec![
        s("text", vec![], T_TEXT),
        s("num", vec![], T_NUM),
        s("charset", vec![], T_CS),
        s("sq", vec![], T_SQ),
        s("private", vec![], T_PRIV),
        s("unknown", vec![], T_UNK),
        s("sq[0].leaf", vec![(T_SQ, 0)], LEAF),
        s("sq[1].leaf", vec![(T_SQ, 1)], LEAF),
        s("sq[0].sq2[0].leaf", vec![(T_SQ, 0), (T_SQ2, 0)], LEAF),
        s("private[0].leaf", vec![(T_PRIV, 0)], LEAF),
        s("unknown[0].leaf", vec![(T_UNK, 0)], LEAF),
        s("pixel", vec![], T_PIX),
    ]
}

/// Actions, described independently of dicom-rs types so that the model does not depend on them.
#[derive(Clone, Debug, PartialEq)]
enum Act {
    Remove,
    Empty,
    SetVr(&'static str),
    Set(MP),
    SetStr(&'static str),
    SetIfMissing(MP),
    SetStrIfMissing(&'static str),
    Replace(MP),
    ReplaceStr(&'static str),
    PushStr(&'static str),
    PushI32(i32),
    PushU32(u32),
    PushI16(i16),
    PushU16(u16),
    PushF32(f32),
    PushF64(f64),
    Truncate(usize),
}

impl Act {
    fn name(&self) -> String {
        match self {
            Act::Remove => "Remove".into(),
            Act::Empty => "Empty".into(),
            Act::SetVr(v) => format!("SetVr({v})"),
            Act::Set(v) => format!("Set({})", v.kind()),
            Act::SetStr(_) => "SetStr".into(),
            Act::SetIfMissing(v) => format!("SetIfMissing({})", v.kind()),
            Act::SetStrIfMissing(_) => "SetStrIfMissing".into(),
            Act::Replace(v) => format!("Replace({})", v.kind()),
            Act::ReplaceStr(_) => "ReplaceStr".into(),
            Act::PushStr(_) => "PushStr".into(),
            Act::PushI32(_) => "PushI32".into(),
            Act::PushU32(_) => "PushU32".into(),
            Act::PushI16(_) => "PushI16".into(),
            Act::PushU16(_) => "PushU16".into(),
            Act::PushF32(_) => "PushF32".into(),
            Act::PushF64(_) => "PushF64".into(),
            Act::Truncate(n) => format!("Truncate({n})"),
        }
    }
    /// documented by `AttributeAction::is_constructive`
    fn constructive(&self) -> bool {
        !matches!(self, Act::Remove | Act::Empty | Act::SetVr(_) | Act::Replace(_) | Act::ReplaceStr(_) | Act::Truncate(_))
    }
    fn is_push(&self) -> bool {
        matches!(self, Act::PushStr(_) | Act::PushI32(_) | Act::PushU32(_) | Act::PushI16(_) | Act::PushU16(_) | Act::PushF32(_) | Act::PushF64(_))
    }
    /// the non-empty primitive value this action would store (None: stores nothing / empty)
    fn stores_nonempty(&self) -> bool {
        match self {
            Act::Set(v) | Act::SetIfMissing(v) | Act::Replace(v) => !v.is_empty(),
            Act::SetStr(_) | Act::SetStrIfMissing(_) | Act::ReplaceStr(_) => true,
            a => a.is_push(),
        }
    }
}

fn actions() -> Vec<Act> {
    vec![
        Act::Remove,
        Act::Empty,
        Act::SetVr("LO"),
        Act::SetVr("US"),
        Act::Set(MP::Str("Abc".into())),
        Act::Set(MP::U16(vec![0x0102])),
        Act::Set(MP::Empty),
        Act::SetStr("Xy"),
        Act::SetIfMissing(MP::Str("Q".into())),
        Act::SetStrIfMissing("Mi"),
        Act::Replace(MP::Str("Rep".into())),
        Act::ReplaceStr("Rs"),
        Act::PushStr("P"),
        Act::PushI32(-5),
        Act::PushU32(70000),
        Act::PushI16(-2),
        Act::PushU16(9),
        Act::PushF32(1.5),
        Act::PushF64(2.5),
        Act::Truncate(0),
        Act::Truncate(1),
    ]
}

#[derive(Clone, Debug)]
struct Op {
    sel: usize,
    act: usize,
}

struct Alphabet {
    sels: Vec<Sel>,
    acts: Vec<Act>,
}
impl Alphabet {
    fn n(&self) -> usize {
        self.sels.len() * self.acts.len()
    }
    fn op(&self, i: usize) -> Op {
        Op { sel: i / self.acts.len(), act: i % self.acts.len() }
    }
    fn label(&self, i: usize) -> String {
        let o = self.op(i);
        format!("{}:{}", self.sels[o.sel].name, self.acts[o.act].name())
    }
    /// the real operation
    fn real(&self, i: usize) -> AttributeOp {
        let o = self.op(i);
        let s = &self.sels[o.sel];
        let mut steps: Vec<AttributeSelectorStep> =
            s.path.iter().map(|(t, i)| AttributeSelectorStep::Nested { tag: Tag(t.0, t.1), item: *i }).collect();
        steps.push(AttributeSelectorStep::Tag(Tag(s.leaf.0, s.leaf.1)));
        let selector = AttributeSelector::new(steps).expect("selector");
        let pv = |m: &MP| -> PrimitiveValue {
            match m {
                MP::Empty => PrimitiveValue::Empty,
                MP::Str(s) => PrimitiveValue::from(s.as_str()),
                MP::U16(v) => PrimitiveValue::U16(v.iter().copied().collect()),
                other => panic!("alphabet value kind {other:?} not mapped"),
            }
        };
        let action = match &self.acts[o.act] {
            Act::Remove => AttributeAction::Remove,
            Act::Empty => AttributeAction::Empty,
            Act::SetVr(v) => AttributeAction::SetVr(vr_of_str(v)),
            Act::Set(v) => AttributeAction::Set(pv(v)),
            Act::SetStr(s) => AttributeAction::SetStr((*s).into()),
            Act::SetIfMissing(v) => AttributeAction::SetIfMissing(pv(v)),
            Act::SetStrIfMissing(s) => AttributeAction::SetStrIfMissing((*s).into()),
            Act::Replace(v) => AttributeAction::Replace(pv(v)),
            Act::ReplaceStr(s) => AttributeAction::ReplaceStr((*s).into()),
            Act::PushStr(s) => AttributeAction::PushStr((*s).into()),
            Act::PushI32(n) => AttributeAction::PushI32(*n),
            Act::PushU32(n) => AttributeAction::PushU32(*n),
            Act::PushI16(n) => AttributeAction::PushI16(*n),
            Act::PushU16(n) => AttributeAction::PushU16(*n),
            Act::PushF32(n) => AttributeAction::PushF32(*n),
            Act::PushF64(n) => AttributeAction::PushF64(*n),
            Act::Truncate(n) => AttributeAction::Truncate(*n),
        };
        AttributeOp { selector, action }
    }
}

// ---------------------------------------------------------------------------------------------
// Reference model (map of sequences)
// ---------------------------------------------------------------------------------------------

/// primitive value with its kind (the kind decides what the Push* family does)
#[derive(Clone, Debug, PartialEq)]
enum MP {
    Empty,
    Str(String),
    Strs(Vec<String>),
    U8(Vec<u8>),
    U16(Vec<u16>),
    I16(Vec<i16>),
    U32(Vec<u32>),
    I32(Vec<i32>),
    F32(Vec<f32>),
    F64(Vec<f64>),
    /// kinds no operation of the alphabet produces (64-bit integers, tags, dates): never addressed
    Opaque { kind: &'static str, count: usize, bytes: Vec<u8> },
}

impl MP {
    fn kind(&self) -> &'static str {
        match self {
            MP::Empty => "empty",
            MP::Str(_) => "str",
            MP::Strs(_) => "strs",
            MP::U8(_) => "u8",
            MP::U16(_) => "u16",
            MP::I16(_) => "i16",
            MP::U32(_) => "u32",
            MP::I32(_) => "i32",
            MP::F32(_) => "f32",
            MP::F64(_) => "f64",
            MP::Opaque { kind, .. } => kind,
        }
    }
    /// number of individual value items
    fn count(&self) -> usize {
        match self {
            MP::Empty => 0,
            MP::Str(_) => 1,
            MP::Strs(v) => v.len(),
            MP::U8(v) => v.len(),
            MP::U16(v) => v.len(),
            MP::I16(v) => v.len(),
            MP::U32(v) => v.len(),
            MP::I32(v) => v.len(),
            MP::F32(v) => v.len(),
            MP::F64(v) => v.len(),
            MP::Opaque { count, .. } => *count,
        }
    }
    fn is_empty(&self) -> bool {
        self.count() == 0
    }
    /// kind class used in comparisons: a value without items has no kind; Str == Strs of one
    fn class(&self) -> &'static str {
        if self.count() == 0 {
            return "empty";
        }
        match self {
            MP::Str(_) | MP::Strs(_) => "text",
            o => o.kind(),
        }
    }
    /// little-endian, unpadded bytes; text joined by backslash
    fn bytes(&self) -> Vec<u8> {
        match self {
            MP::Empty => vec![],
            MP::Str(s) => s.as_bytes().to_vec(),
            MP::Strs(v) => v.join("\\").into_bytes(),
            MP::U8(v) => v.clone(),
            MP::U16(v) => v.iter().flat_map(|x| x.to_le_bytes()).collect(),
            MP::I16(v) => v.iter().flat_map(|x| x.to_le_bytes()).collect(),
            MP::U32(v) => v.iter().flat_map(|x| x.to_le_bytes()).collect(),
            MP::I32(v) => v.iter().flat_map(|x| x.to_le_bytes()).collect(),
            MP::F32(v) => v.iter().flat_map(|x| x.to_le_bytes()).collect(),
            MP::F64(v) => v.iter().flat_map(|x| x.to_le_bytes()).collect(),
            MP::Opaque { bytes, .. } => bytes.clone(),
        }
    }
}

#[derive(Clone, Debug, PartialEq)]
enum MV {
    Prim(MP),
    Seq(Vec<MObj>),
    Pix { offsets: Vec<u32>, frags: Vec<Vec<u8>> },
}

#[derive(Clone, Debug, PartialEq)]
struct ME {
    vr: String,
    val: MV,
}
type MObj = BTreeMap<T2, ME>;

#[derive(Clone, Copy, Debug, PartialEq, Eq)]
enum MErr {
    MissingSequence,
    NotASequence,
    Incompatible,
    Modify,
}

/// What the documentation leaves open; a transition is accepted when any reading matches.
#[derive(Clone, Copy, Debug, PartialEq, Eq)]
struct Reading {
    /// `SetVr` on a missing attribute: false = nothing happens ("if the attribute exists"),
    /// true = an empty attribute with that VR appears
    setvr_creates: bool,
}
const READINGS: [Reading; 2] = [Reading { setvr_creates: false }, Reading { setvr_creates: true }];

/// VR of an attribute created by an operation: the dictionary VR when it is exact, else `fallback`.
fn created_vr(dict: &Dict, tag: T2, fallback: &str) -> String {
    match dict.lookup(tag) {
        dict::Lookup::Entry(e) if e.vr.len() == 2 && e.vr.chars().all(|c| c.is_ascii_uppercase()) => e.vr.clone(),
        _ => fallback.to_string(),
    }
}

fn model_apply(m: &MObj, sel: &Sel, act: &Act, dict: &Dict, rd: Reading) -> Result<MObj, MErr> {
    // applied to a copy: an operation that fails leaves the object unchanged
    let mut out = m.clone();
    {
        let mut cur: &mut MObj = &mut out;
        for (tag, idx) in &sel.path {
            if !cur.contains_key(tag) {
                if act.constructive() {
                    // constructive actions create missing sequences (only where a sequence can live)
                    let vr = created_vr(dict, *tag, "SQ");
                    if vr != "SQ" {
                        return Err(MErr::NotASequence);
                    }
                    cur.insert(*tag, ME { vr: "SQ".into(), val: MV::Seq(vec![]) });
                } else {
                    return Err(MErr::MissingSequence);
                }
            }
            let e = cur.get_mut(tag).unwrap();
            // an emptied sequence attribute is a sequence of zero items
            if e.vr == "SQ" && matches!(&e.val, MV::Prim(p) if p.is_empty()) {
                e.val = MV::Seq(vec![]);
            }
            let items = match &mut e.val {
                MV::Seq(items) => items,
                _ => return Err(MErr::NotASequence),
            };
            if items.len() == *idx as usize && act.constructive() {
                items.push(MObj::new());
            }
            cur = items.get_mut(*idx as usize).ok_or(MErr::MissingSequence)?;
        }
        model_leaf(cur, sel.leaf, act, dict, rd)?;
    }
    Ok(out)
}

fn set_value(m: &mut MObj, tag: T2, v: MP, dict: &Dict) {
    let vr = match m.get(&tag) {
        Some(e) => e.vr.clone(),
        None => created_vr(dict, tag, "UN"),
    };
    // "passing Empty will create an empty data set sequence"
    let val = if vr == "SQ" && v.is_empty() { MV::Seq(vec![]) } else { MV::Prim(v) };
    m.insert(tag, ME { vr, val });
}

fn num_text_f32(x: f32) -> String {
    x.to_string()
}
fn num_text_f64(x: f64) -> String {
    x.to_string()
}

/// one number pushed onto a value; `as` casts model "converted to the current number type through casting"
#[derive(Clone, Copy)]
enum Num {
    I32(i32),
    U32(u32),
    I16(i16),
    U16(u16),
    F32(f32),
    F64(f64),
}
impl Num {
    fn text(self) -> String {
        match self {
            Num::I32(n) => n.to_string(),
            Num::U32(n) => n.to_string(),
            Num::I16(n) => n.to_string(),
            Num::U16(n) => n.to_string(),
            Num::F32(n) => num_text_f32(n),
            Num::F64(n) => num_text_f64(n),
        }
    }
    fn own(self) -> MP {
        match self {
            Num::I32(n) => MP::I32(vec![n]),
            Num::U32(n) => MP::U32(vec![n]),
            Num::I16(n) => MP::I16(vec![n]),
            Num::U16(n) => MP::U16(vec![n]),
            Num::F32(n) => MP::F32(vec![n]),
            Num::F64(n) => MP::F64(vec![n]),
        }
    }
    fn natural_vr(self) -> &'static str {
        match self {
            Num::I32(_) => "SL",
            Num::U32(_) => "UL",
            Num::I16(_) => "SS",
            Num::U16(_) => "US",
            Num::F32(_) => "FL",
            Num::F64(_) => "FD",
        }
    }
}
macro_rules! cast_all {
    ($n:expr, $t:ty) => {
        match $n {
            Num::I32(n) => n as $t,
            Num::U32(n) => n as $t,
            Num::I16(n) => n as $t,
            Num::U16(n) => n as $t,
            Num::F32(n) => n as $t,
            Num::F64(n) => n as $t,
        }
    };
}

fn push_num(p: &mut MP, n: Num) -> Result<(), MErr> {
    match p {
        MP::Empty => *p = n.own(),
        MP::Str(s) => *p = MP::Strs(vec![s.clone(), n.text()]),
        MP::Strs(v) => v.push(n.text()),
        MP::U8(v) => v.push(cast_all!(n, u8)),
        MP::U16(v) => v.push(cast_all!(n, u16)),
        MP::I16(v) => v.push(cast_all!(n, i16)),
        MP::U32(v) => v.push(cast_all!(n, u32)),
        MP::I32(v) => v.push(cast_all!(n, i32)),
        MP::F32(v) => v.push(cast_all!(n, f32)),
        MP::F64(v) => v.push(cast_all!(n, f64)),
        MP::Opaque { .. } => return Err(MErr::Modify),
    }
    Ok(())
}

fn push_str(p: &mut MP, s: &str) -> Result<(), MErr> {
    match p {
        MP::Empty => *p = MP::Strs(vec![s.to_string()]),
        MP::Str(o) => *p = MP::Strs(vec![o.clone(), s.to_string()]),
        MP::Strs(v) => v.push(s.to_string()),
        // "An error is returned if the current value is not textual"
        _ => return Err(MErr::Modify),
    }
    Ok(())
}

fn truncate(p: &mut MP, n: usize) {
    match p {
        MP::Empty => {}
        // a single string is one value item
        MP::Str(_) => {
            if n == 0 {
                *p = MP::Empty
            }
        }
        MP::Strs(v) => v.truncate(n),
        MP::U8(v) => v.truncate(n),
        MP::U16(v) => v.truncate(n),
        MP::I16(v) => v.truncate(n),
        MP::U32(v) => v.truncate(n),
        MP::I32(v) => v.truncate(n),
        MP::F32(v) => v.truncate(n),
        MP::F64(v) => v.truncate(n),
        MP::Opaque { .. } => panic!("model: truncate on an opaque value kind"),
    }
}

fn model_leaf(m: &mut MObj, tag: T2, act: &Act, dict: &Dict, rd: Reading) -> Result<(), MErr> {
    let exists = m.contains_key(&tag);
    match act {
        Act::Remove => {
            m.remove(&tag);
        }
        Act::Empty => {
            if let Some(e) = m.get_mut(&tag) {
                // "clear its value to zero bytes"; the VR stays; a sequence of zero items for SQ
                e.val = if e.vr == "SQ" { MV::Seq(vec![]) } else { MV::Prim(MP::Empty) };
            }
        }
        Act::SetVr(vr) => match m.get_mut(&tag) {
            Some(e) => {
                // "The underlying value is not modified"; the request "does not make sense" for
                // sequences and encapsulated pixel data, whose VR is given by the value
                if matches!(e.val, MV::Prim(_)) && e.vr != "SQ" {
                    e.vr = vr.to_string();
                }
            }
            None => {
                if rd.setvr_creates {
                    m.insert(tag, ME { vr: vr.to_string(), val: MV::Prim(MP::Empty) });
                }
            }
        },
        Act::Set(v) => set_value(m, tag, v.clone(), dict),
        Act::SetStr(s) => set_value(m, tag, MP::Str(s.to_string()), dict),
        Act::SetIfMissing(v) => {
            if !exists {
                set_value(m, tag, v.clone(), dict)
            }
        }
        Act::SetStrIfMissing(s) => {
            if !exists {
                set_value(m, tag, MP::Str(s.to_string()), dict)
            }
        }
        Act::Replace(v) => {
            if exists {
                set_value(m, tag, v.clone(), dict)
            }
        }
        Act::ReplaceStr(s) => {
            if exists {
                set_value(m, tag, MP::Str(s.to_string()), dict)
            }
        }
        Act::PushStr(s) => match m.get_mut(&tag) {
            Some(e) => match &mut e.val {
                MV::Prim(p) => push_str(p, s)?,
                _ => return Err(MErr::Incompatible),
            },
            None => {
                m.insert(tag, ME { vr: created_vr(dict, tag, "UN"), val: MV::Prim(MP::Str(s.to_string())) });
            }
        },
        Act::PushI32(_) | Act::PushU32(_) | Act::PushI16(_) | Act::PushU16(_) | Act::PushF32(_) | Act::PushF64(_) => {
            let n = match act {
                Act::PushI32(n) => Num::I32(*n),
                Act::PushU32(n) => Num::U32(*n),
                Act::PushI16(n) => Num::I16(*n),
                Act::PushU16(n) => Num::U16(*n),
                Act::PushF32(n) => Num::F32(*n),
                Act::PushF64(n) => Num::F64(*n),
                _ => unreachable!(),
            };
            match m.get_mut(&tag) {
                Some(e) => match &mut e.val {
                    MV::Prim(p) => push_num(p, n)?,
                    _ => return Err(MErr::Incompatible),
                },
                None => {
                    m.insert(tag, ME { vr: created_vr(dict, tag, n.natural_vr()), val: MV::Prim(n.own()) });
                }
            }
        }
        Act::Truncate(n) => {
            if let Some(e) = m.get_mut(&tag) {
                match &mut e.val {
                    MV::Prim(p) => truncate(p, *n),
                    MV::Seq(items) => items.truncate(*n),
                    MV::Pix { frags, .. } => frags.truncate(*n),
                }
            }
        }
    }
    Ok(())
}

// ---------------------------------------------------------------------------------------------
// Abstraction of the real object, state key, comparison
// ---------------------------------------------------------------------------------------------

fn abstract_prim(p: &PrimitiveValue) -> MP {
    use PrimitiveValue as P;
    match p {
        P::Empty => MP::Empty,
        P::Str(s) => MP::Str(s.clone()),
        P::Strs(v) => MP::Strs(v.to_vec()),
        P::U8(v) => MP::U8(v.to_vec()),
        P::U16(v) => MP::U16(v.to_vec()),
        P::I16(v) => MP::I16(v.to_vec()),
        P::U32(v) => MP::U32(v.to_vec()),
        P::I32(v) => MP::I32(v.to_vec()),
        P::F32(v) => MP::F32(v.to_vec()),
        P::F64(v) => MP::F64(v.to_vec()),
        P::U64(v) => MP::Opaque { kind: "u64", count: v.len(), bytes: prim_le_bytes(p) },
        P::I64(v) => MP::Opaque { kind: "i64", count: v.len(), bytes: prim_le_bytes(p) },
        P::Tags(v) => MP::Opaque { kind: "tags", count: v.len(), bytes: prim_le_bytes(p) },
        P::Date(v) => MP::Opaque { kind: "date", count: v.len(), bytes: prim_le_bytes(p) },
        P::Time(v) => MP::Opaque { kind: "time", count: v.len(), bytes: prim_le_bytes(p) },
        P::DateTime(v) => MP::Opaque { kind: "datetime", count: v.len(), bytes: prim_le_bytes(p) },
    }
}

fn abstract_obj(o: &InMemDicomObject) -> MObj {
    let mut m = MObj::new();
    for e in o.iter() {
        let val = match e.value() {
            Value::Primitive(p) => MV::Prim(abstract_prim(p)),
            Value::Sequence(s) => MV::Seq(s.items().iter().map(abstract_obj).collect()),
            Value::PixelSequence(p) => MV::Pix { offsets: p.offset_table().to_vec(), frags: p.fragments().iter().map(|f| f.to_vec()).collect() },
        };
        m.insert((e.tag().0, e.tag().1), ME { vr: String::from(e.vr().to_string()), val });
    }
    m
}

/// model of an initial state, built from the `Node` description (not from the object)
fn model_of_nodes(nodes: &[Node]) -> MObj {
    let mut m = MObj::new();
    for n in nodes {
        match n {
            Node::Prim(a) => {
                m.insert(a.tag, ME { vr: a.vr.to_string(), val: MV::Prim(abstract_prim(&a.value)) });
            }
            Node::Seq { tag, items, .. } => {
                m.insert(*tag, ME { vr: "SQ".into(), val: MV::Seq(items.iter().map(|i| model_of_nodes(i)).collect()) });
            }
            Node::Pix { vr, offsets, frags, .. } => {
                m.insert(T_PIX, ME { vr: vr.to_string(), val: MV::Pix { offsets: offsets.clone(), frags: frags.clone() } });
            }
        }
    }
    m
}

/// First difference between two model objects, comparing tags, VRs, value classes and bytes.
/// An SQ attribute with an empty primitive value equals a sequence of zero items.
fn diff(a: &MObj, b: &MObj, path: &str) -> Option<(String, String)> {
    diff_k(a, b, path, true)
}
fn diff_k(a: &MObj, b: &MObj, path: &str, kinds: bool) -> Option<(String, String)> {
    let ka: Vec<&T2> = a.keys().collect();
    let kb: Vec<&T2> = b.keys().collect();
    if ka != kb {
        return Some(("attributes".into(), format!("{path}: model has {:04X?}, object has {:04X?}", ka, kb)));
    }
    for (t, ea) in a {
        let eb = &b[t];
        let here = format!("{path}({:04X},{:04X})", t.0, t.1);
        if ea.vr != eb.vr {
            return Some(("vr".into(), format!("{here}: model VR {} object VR {}", ea.vr, eb.vr)));
        }
        let norm = |e: &ME| -> MV {
            match &e.val {
                MV::Prim(p) if e.vr == "SQ" && p.is_empty() => MV::Seq(vec![]),
                v => v.clone(),
            }
        };
        match (norm(ea), norm(eb)) {
            (MV::Prim(pa), MV::Prim(pb)) => {
                if kinds && pa.class() != pb.class() {
                    return Some(("value-kind".into(), format!("{here}: model {:?} object {:?}", pa, pb)));
                }
                let same = if kinds { pa.bytes() == pb.bytes() } else { eq_padded(&pa.bytes(), &pb.bytes()) };
                if !same {
                    return Some(("value".into(), format!("{here}: model {:?} object {:?}", pa, pb)));
                }
            }
            (MV::Seq(ia), MV::Seq(ib)) => {
                if ia.len() != ib.len() {
                    return Some(("item-count".into(), format!("{here}: model {} items, object {}", ia.len(), ib.len())));
                }
                for (i, (x, y)) in ia.iter().zip(ib.iter()).enumerate() {
                    if let Some(d) = diff_k(x, y, &format!("{here}[{i}]."), kinds) {
                        return Some(d);
                    }
                }
            }
            (MV::Pix { offsets: oa, frags: fa }, MV::Pix { offsets: ob, frags: fb }) => {
                if oa != ob || fa != fb {
                    return Some(("pixel".into(), format!("{here}: model {oa:?}/{fa:02X?} object {ob:?}/{fb:02X?}")));
                }
            }
            (x, y) => {
                let k = |v: &MV| match v {
                    MV::Prim(_) => "primitive",
                    MV::Seq(_) => "sequence",
                    MV::Pix { .. } => "pixel-sequence",
                };
                return Some(("value-shape".into(), format!("{here}: model {} object {}", k(&x), k(&y))));
            }
        }
    }
    None
}

fn show(m: &MObj) -> String {
    let mut s = String::new();
    for (t, e) in m {
        s.push_str(&format!("({:04X},{:04X}){}=", t.0, t.1, e.vr));
        match &e.val {
            MV::Prim(p) => s.push_str(&format!("{p:?}")),
            MV::Seq(items) => s.push_str(&format!("[{}]", items.iter().map(|i| format!("{{{}}}", show(i))).collect::<Vec<_>>().join(","))),
            MV::Pix { offsets, frags } => s.push_str(&format!("PIX{offsets:?}{frags:02X?}")),
        }
        s.push(' ');
    }
    s.chars().take(600).collect()
}

/// Is the value kind one that the VR can carry? A text value under a binary VR (or numbers under a
/// text VR other than IS/DS, or typed numbers under UN) is a type confusion introduced by the caller
/// (e.g. `SetVr(US)` on a text attribute); for such attributes only presence, VR and structural
/// validity are checked after writing, not the bytes.
fn consistent(vr: &str, p: &MP) -> bool {
    consistent_class(vr, p.class())
}
fn consistent_class(vr: &str, class: &str) -> bool {
    const TEXT: [&str; 17] = ["AE", "AS", "CS", "DA", "DS", "DT", "IS", "LO", "LT", "PN", "SH", "ST", "TM", "UC", "UI", "UR", "UT"];
    match class {
        "empty" => true,
        "text" => TEXT.contains(&vr) || vr == "UN" || vr == "OB",
        "u8" => matches!(vr, "OB" | "UN"),
        "u16" => matches!(vr, "US" | "OW" | "IS" | "DS"),
        "i16" => matches!(vr, "SS" | "IS" | "DS"),
        "u32" => matches!(vr, "UL" | "OL" | "IS" | "DS"),
        "i32" => matches!(vr, "SL" | "IS" | "DS"),
        "f32" => matches!(vr, "FL" | "OF" | "DS"),
        "f64" => matches!(vr, "FD" | "OD" | "DS"),
        "u64" => matches!(vr, "UV" | "OV"),
        "i64" => matches!(vr, "SV"),
        "tags" => vr == "AT",
        "date" => vr == "DA",
        "time" => vr == "TM",
        "datetime" => vr == "DT",
        _ => false,
    }
}

/// Expected tree for the write/read checks, from the real object: canon + confusion flags.
#[derive(Clone, Debug)]
struct XE {
    tag: T2,
    vr: [u8; 2],
    val: XV,
}
#[derive(Clone, Debug)]
enum XV {
    Prim { bytes: Vec<u8>, confused: bool, class: &'static str },
    Seq(Vec<Vec<XE>>),
    Pix { offsets: Vec<u32>, frags: Vec<Vec<u8>> },
}

fn xcanon(o: &InMemDicomObject) -> Vec<XE> {
    o.iter()
        .map(|e| {
            let vr = vr_code(e.vr());
            let val = match e.value() {
                Value::Primitive(p) => {
                    if e.vr() == VR::SQ && p.multiplicity() == 0 {
                        XV::Seq(vec![])
                    } else {
                        XV::Prim { bytes: prim_canon_bytes(e.vr(), p), confused: !consistent(&e.vr().to_string(), &abstract_prim(p)), class: abstract_prim(p).class() }
                    }
                }
                Value::Sequence(s) => XV::Seq(s.items().iter().map(xcanon).collect()),
                Value::PixelSequence(p) => XV::Pix { offsets: p.offset_table().to_vec(), frags: p.fragments().iter().map(|f| f.to_vec()).collect() },
            };
            XE { tag: (e.tag().0, e.tag().1), vr, val }
        })
        .collect()
}

/// equal up to one trailing padding byte (NUL or space) on an odd-length value
fn eq_padded(want: &[u8], got: &[u8]) -> bool {
    want == got || (want.len() % 2 == 1 && got.len() == want.len() + 1 && got[..want.len()] == *want && (got[want.len()] == 0 || got[want.len()] == b' '))
}

/// Compare the expected tree with a tree obtained from the output (strict wire parse or read-back).
fn xcompare(expected: &[XE], got: &[RElem], implicit: bool, check_vr: bool, dict: &Dict, what: &str) -> Result<(), (String, String)> {
    let err = |k: &str, m: String| Err((format!("{what}-{k}"), m));
    if expected.len() != got.len() || expected.iter().zip(got).any(|(e, g)| e.tag != g.tag) {
        return err("attributes", format!("expected {:04X?} got {:04X?}", expected.iter().map(|e| e.tag).collect::<Vec<_>>(), got.iter().map(|e| e.tag).collect::<Vec<_>>()));
    }
    for (e, g) in expected.iter().zip(got) {
        let want_vr: Vec<[u8; 2]> = if !implicit {
            vec![e.vr]
        } else if let XV::Seq(items) = &e.val {
            // a zero-length sequence of a tag the dictionary does not know comes back as an empty UN value
            let mut v = vec![*b"SQ"];
            if items.is_empty() {
                v.extend(dict.implicit_vrs(e.tag, false));
            }
            v
        } else {
            dict.implicit_vrs(e.tag, false)
        };
        if check_vr && !want_vr.contains(&g.vr) {
            return err("vr", format!("{:04X?}: expected one of {:?} got {}", e.tag, want_vr.iter().map(|v| rds::vr_str(*v)).collect::<Vec<_>>(), rds::vr_str(g.vr)));
        }
        match (&e.val, &g.val) {
            (XV::Prim { bytes, confused, class }, RVal::Prim(gb)) => {
                // in implicit VR the value is read under the dictionary VR: a value whose kind does not
                // fit that VR (after SetVr on a dictionary tag) is a caller-made confusion as well
                let confused = *confused || (implicit && check_vr && !consistent_class(&rds::vr_str(g.vr), class));
                if !confused && !eq_padded(bytes, gb) {
                    return err("value", format!("{:04X?} {}: expected {:02X?} got {:02X?}", e.tag, rds::vr_str(e.vr), bytes, gb));
                }
            }
            (XV::Seq(ei), RVal::Seq { items: gi, .. }) => {
                if ei.len() != gi.len() {
                    return err("item-count", format!("{:04X?}: expected {} got {}", e.tag, ei.len(), gi.len()));
                }
                for (a, b) in ei.iter().zip(gi) {
                    xcompare(a, &b.elems, implicit, check_vr, dict, what)?;
                }
            }
            (XV::Pix { offsets: eo, frags: ef }, RVal::Pix { offsets: go, frags: gf }) => {
                if eo != go || ef.len() != gf.len() || ef.iter().zip(gf).any(|(a, b)| !(a == b || (a.len() % 2 == 1 && b.len() == a.len() + 1 && b[..a.len()] == a[..] && b[a.len()] == 0))) {
                    return err("pixel", format!("expected {eo:?}/{ef:02X?} got {go:?}/{gf:02X?}"));
                }
            }
            // an empty sequence may come back as a zero-length value of VR SQ/UN, and an empty value of
            // a tag the dictionary knows as SQ comes back (implicit VR) as a sequence of zero items
            (XV::Seq(ei), RVal::Prim(gb)) if ei.is_empty() && gb.is_empty() => {}
            (XV::Prim { bytes, .. }, RVal::Seq { items, .. }) if implicit && bytes.is_empty() && items.is_empty() => {}
            (a, b) => {
                let ka = match a {
                    XV::Prim { .. } => "primitive",
                    XV::Seq(_) => "sequence",
                    XV::Pix { .. } => "pixel-sequence",
                };
                let kb = match b {
                    RVal::Prim(_) => "primitive",
                    RVal::Seq { .. } => "sequence",
                    RVal::Pix { .. } => "pixel-sequence",
                };
                return err("shape", format!("{:04X?}: expected {ka} got {kb}", e.tag));
            }
        }
    }
    Ok(())
}

/// plain reference tree of the expected object (VR oracle for the strict parser)
fn x_to_ref(x: &[XE]) -> Vec<RElem> {
    x.iter()
        .map(|e| RElem {
            tag: e.tag,
            vr: if matches!(e.val, XV::Seq(_)) { *b"SQ" } else { e.vr },
            val: match &e.val {
                XV::Prim { bytes, .. } => RVal::Prim(bytes.clone()),
                XV::Seq(items) => RVal::Seq { items: items.iter().map(|i| RItem { elems: x_to_ref(i), explicit: false }).collect(), explicit: false },
                XV::Pix { offsets, frags } => RVal::Pix { offsets: offsets.clone(), frags: frags.clone() },
            },
        })
        .collect()
}

/// Everything observable of a state, as bytes.
fn state_key(o: &InMemDicomObject, out: &mut Vec<u8>) {
    for e in o.iter() {
        out.extend(e.tag().0.to_le_bytes());
        out.extend(e.tag().1.to_le_bytes());
        out.extend(vr_code(e.vr()));
        out.push(e.header().length().is_defined() as u8);
        match e.value() {
            Value::Primitive(p) => {
                let m = abstract_prim(p);
                out.push(b'P');
                out.extend(m.kind().as_bytes());
                out.extend((m.count() as u32).to_le_bytes());
                let b = m.bytes();
                out.extend((b.len() as u32).to_le_bytes());
                out.extend(b);
            }
            Value::Sequence(s) => {
                out.push(b'S');
                out.push(s.length().is_defined() as u8);
                out.extend((s.items().len() as u32).to_le_bytes());
                for it in s.items().iter() {
                    out.push(b'{');
                    out.push(it.length().is_defined() as u8);
                    state_key(it, out);
                    out.push(b'}');
                }
            }
            Value::PixelSequence(p) => {
                out.push(b'X');
                out.extend((p.offset_table().len() as u32).to_le_bytes());
                for o in p.offset_table() {
                    out.extend(o.to_le_bytes());
                }
                for f in p.fragments() {
                    out.extend((f.len() as u32).to_le_bytes());
                    out.extend(f.iter());
                }
            }
        }
    }
}

/// state key: structure + what the NoChange writer emits (observes the hidden charset_changed flag)
fn full_key(obj: &InMemDicomObject) -> u128 {
    let mut kb = vec![];
    state_key(obj, &mut kb);
    match guard(|| write_ds(obj, TS4[1], WriteMode::NoChange)) {
        Ok(Ok(b)) => {
            kb.push(b'W');
            kb.extend(b)
        }
        Ok(Err(_)) => kb.extend(b"write-err"),
        Err(_) => kb.extend(b"write-panic"),
    }
    key128(&kb)
}

fn key128(bytes: &[u8]) -> u128 {
    let a = vx_kit::hash_of(&(0x5eedu64, bytes));
    let b = vx_kit::hash_of(&(bytes, 0xc13u64));
    ((a as u128) << 64) | b as u128
}

// ---------------------------------------------------------------------------------------------
// Initial states
// ---------------------------------------------------------------------------------------------

struct Init {
    name: &'static str,
    nodes: Vec<Node>,
    /// read from a reference stream in which every sequence and item has a defined length
    recorded: bool,
}

fn atom(tag: T2, vr: &'static str, value: PrimitiveValue, tclass: &'static str) -> Node {
    let le = prim_le_bytes(&value);
    Node::Prim(Atom { tag, vr, value, le, shape: "c13", tclass })
}

fn initial_states() -> Vec<Init> {
    use dicom_core::value::{DicomDate, C};
    use PrimitiveValue as P;
    let strs = |v: &[&str]| P::Strs(v.iter().map(|s| s.to_string()).collect());
    // bystanders no selector addresses: they must stay untouched whatever happens
    let date = atom((0x0008, 0x0020), "DA", P::Date(C::from_elem(DicomDate::from_ymd(2020, 2, 29).unwrap(), 1)), "std");
    let at = atom((0x0020, 0x9165), "AT", P::Tags(C::from_elem(Tag(0x0102, 0x0304), 1)), "std");
    let seq_nodes = vec![
        date.clone(),
        atom(T_TEXT, "LO", P::Str("Abc".into()), "std"),
        Node::Seq {
            tag: T_SQ,
            tclass: "std",
            items: vec![
                vec![
                    atom(LEAF, "LO", strs(&["A", "BC"]), "std"),
                    Node::Seq { tag: T_SQ2, tclass: "std", items: vec![vec![atom(LEAF, "LO", P::Str("In".into()), "std")]] },
                ],
                vec![],
            ],
        },
        at.clone(),
        atom(T_NUM, "US", P::U16(C::from_elem(0x0102, 1)), "std"),
    ];
    let pix_nodes = vec![
        atom(T_CS, "CS", P::Str("ISO_IR 100".into()), "charset"),
        date.clone(),
        atom(T_TEXT, "LO", P::Str("Abc".into()), "std"),
        Node::Pix { vr: "OB", offsets: vec![0], frags: vec![vec![1, 2, 3, 4], vec![5, 6]], shape: "bot-0/two" },
    ];
    vec![
        Init { name: "empty", nodes: vec![], recorded: false },
        Init { name: "seq", nodes: seq_nodes.clone(), recorded: false },
        Init { name: "pix", nodes: pix_nodes, recorded: false },
        Init { name: "recorded", nodes: seq_nodes, recorded: true },
    ]
}

fn build_init(init: &Init) -> InMemDicomObject {
    if !init.recorded {
        return to_obj(&init.nodes);
    }
    let nc = count_containers(&init.nodes);
    let tree = to_ref(&init.nodes, (1u32 << nc) - 1);
    let stream = rds::encode_items(rds::Ts::ExplicitLE, &tree);
    read_ds(&stream, TS4[1]).unwrap_or_else(|e| panic!("cannot read the reference stream of the initial state: {e}"))
}


// ---------------------------------------------------------------------------------------------
// Second search ("shadow"): the tags used as nested steps also exist in the enclosing data set
// ---------------------------------------------------------------------------------------------

/// Selectors A[i].B[j].leaf with A = (0008,1140) and B a standard, a private and an unknown tag that
/// the initial states also hold at the top level (as a sequence of 2 items, or as a primitive value)
/// and inside A's item with other item counts; j in {0,1,2} tells existing / next / out of range
/// apart at each level. Plus the top-level selectors that change those preconditions.
fn shadow_selectors() -> Vec<Sel> {
    let s = |name: &'static str, path: Vec<(T2, u32)>, leaf| Sel { name, path, leaf };
    let mut v = vec![];
    for (bn, b) in [("sq2", T_SQ2), ("private", T_PRIV), ("unknown", T_UNK)] {
        for j in 0..3u32 {
            let name: &'static str = Box::leak(format!("sq[0].{bn}[{j}].leaf").into_boxed_str());
            v.push(s(name, vec![(T_SQ, 0), (b, j)], LEAF));
        }
        let name: &'static str = Box::leak(format!("sq[1].{bn}[0].leaf").into_boxed_str());
        v.push(s(name, vec![(T_SQ, 1), (b, 0)], LEAF));
    }
    // a standard non-sequence tag as intermediate step (present as a primitive at the top level)
    v.push(s("sq[0].num[0].leaf", vec![(T_SQ, 0), (T_NUM, 0)], LEAF));
    v.push(s("sq[0].leaf", vec![(T_SQ, 0)], LEAF));
    // top level: A and the B's themselves, and the leaf tag
    v.push(s("sq", vec![], T_SQ));
    v.push(s("sq2", vec![], T_SQ2));
    v.push(s("private", vec![], T_PRIV));
    v.push(s("unknown", vec![], T_UNK));
    v.push(s("text", vec![], T_TEXT));
    v
}

/// quick tier: 5 constructive + 5 non-constructive actions; thorough: all 21
fn shadow_actions(all: bool) -> Vec<Act> {
    if all {
        return actions();
    }
    vec![
        Act::Remove,
        Act::Empty,
        Act::SetVr("LO"),
        Act::Replace(MP::Str("Rep".into())),
        Act::Truncate(1),
        Act::Set(MP::Str("Abc".into())),
        Act::Set(MP::Empty),
        Act::SetIfMissing(MP::Str("Q".into())),
        Act::PushStr("P"),
        Act::PushU16(9),
    ]
}

fn shadow_initial_states() -> Vec<Init> {
    use dicom_core::value::{DicomDate, C};
    use PrimitiveValue as P;
    let date = atom((0x0008, 0x0020), "DA", P::Date(C::from_elem(DicomDate::from_ymd(2020, 2, 29).unwrap(), 1)), "std");
    let leaf = |v: &str| atom(LEAF, "LO", P::Str(v.into()), "std");
    let seq = |tag: T2, tclass: &'static str, items: Vec<Vec<Node>>| Node::Seq { tag, items, tclass };
    let sort = |mut n: Vec<Node>| {
        n.sort_by_key(|x| x.tag());
        n
    };
    // (1a) A missing; every B at the top level as a sequence of 2 items; the leaf tag at the top too
    let tops_seq = vec![
        date.clone(),
        leaf("Top"),
        seq(T_SQ2, "std", vec![vec![leaf("T0")], vec![]]),
        Node::Prim(private_creator()),
        seq(T_PRIV, "private", vec![vec![leaf("P0")], vec![leaf("P1")]]),
        seq(T_UNK, "unknown", vec![vec![], vec![leaf("U1")]]),
        atom(T_NUM, "US", P::U16(C::from_elem(0x0102, 1)), "std"),
    ];
    // (1b) A missing; private and unknown B at the top level as primitive values
    let tops_prim = vec![
        date.clone(),
        leaf("Top"),
        Node::Prim(private_creator()),
        atom(T_PRIV, "LO", P::Str("Pv".into()), "private"),
        atom(T_UNK, "UN", P::U8(C::from_vec(vec![1, 2])), "unknown"),
        atom(T_NUM, "US", P::U16(C::from_elem(0x0102, 1)), "std"),
    ];
    // (2) A exists; B inside A's item with 1 / 0 / 3 items and at the top level with 2 items each
    let mut both = tops_seq.clone();
    both.push(seq(
        T_SQ,
        "std",
        vec![sort(vec![
            leaf("A0"),
            seq(T_SQ2, "std", vec![vec![leaf("In")]]),
            seq(T_PRIV, "private", vec![]),
            seq(T_UNK, "unknown", vec![vec![], vec![leaf("X1")], vec![]]),
        ])],
    ));
    vec![
        Init { name: "shadow-top-sequences", nodes: sort(tops_seq), recorded: false },
        Init { name: "shadow-top-primitives", nodes: sort(tops_prim), recorded: false },
        Init { name: "shadow-both-levels", nodes: sort(both.clone()), recorded: false },
        Init { name: "shadow-both-levels-recorded", nodes: sort(both), recorded: true },
    ]
}

// ---------------------------------------------------------------------------------------------
// The search
// ---------------------------------------------------------------------------------------------

struct Ctx {
    /// first component of the case ids of this search
    prefix: &'static str,
    dict: Dict,
    alpha: Alphabet,
    inits: Vec<Init>,
}

#[derive(Clone, Debug)]
struct Hist {
    init: usize,
    ops: Vec<u16>,
}
impl Hist {
    fn id(&self, prefix: &str) -> String {
        format!("{prefix}/{}/{}", self.init, self.ops.iter().map(|o| o.to_string()).collect::<Vec<_>>().join("."))
    }
    fn parse(id: &str) -> Option<Hist> {
        let mut p = id.split('/');
        p.next()?;
        let init = p.next()?.parse().ok()?;
        let rest = p.next().unwrap_or("");
        let ops = if rest.is_empty() { vec![] } else { rest.split('.').map(|x| x.parse().ok()).collect::<Option<Vec<u16>>>()? };
        Some(Hist { init, ops })
    }
}

impl Ctx {
    fn labels(&self, h: &Hist) -> Vec<String> {
        h.ops.iter().map(|o| self.alpha.label(*o as usize)).collect()
    }

    /// re-apply a history to a fresh object (results of the operations are ignored here: every
    /// transition of the prefix was evaluated when its own state was expanded)
    fn rebuild(&self, h: &Hist) -> InMemDicomObject {
        let mut o = build_init(&self.inits[h.init]);
        for op in &h.ops {
            let _ = guard(|| o.apply(self.alpha.real(*op as usize)));
        }
        o
    }

    /// what the leaf of the selector resolves to in the pre-state
    fn target(&self, m: &MObj, sel: &Sel) -> (&'static str, Option<ME>) {
        let mut cur = m;
        for (t, i) in &sel.path {
            match cur.get(t) {
                None => return ("missing-path", None),
                Some(e) => match &e.val {
                    MV::Seq(items) => match items.get(*i as usize) {
                        Some(o) => cur = o,
                        None => return (if items.len() == *i as usize { "next-item" } else { "missing-item" }, None),
                    },
                    MV::Prim(p) if e.vr == "SQ" && p.is_empty() => return ("emptied-sq-path", None),
                    _ => return ("path-not-a-sequence", None),
                },
            }
        }
        match cur.get(&sel.leaf) {
            None => ("missing", None),
            Some(e) => (
                match &e.val {
                    MV::Prim(p) => match p.class() {
                        "empty" => "prim-empty",
                        "text" => "prim-text",
                        _ => "prim-number",
                    },
                    MV::Seq(_) => "sequence",
                    MV::Pix { .. } => "pixel-sequence",
                },
                Some(e.clone()),
            ),
        }
    }

    /// Is the operation inside the universe for this pre-state? (None = yes, Some(reason) = skipped)
    fn excluded(&self, m: &MObj, sel: &Sel, act: &Act) -> Option<&'static str> {
        let (tk, te) = self.target(m, sel);
        // value multiplicity is capped at 3 so that the space closes
        if act.is_push() {
            if let Some(ME { val: MV::Prim(p), .. }) = &te {
                if p.count() >= 3 {
                    return Some("skipped-multiplicity-cap");
                }
            }
        }
        // storing a non-empty primitive value in a sequence attribute is a caller error, not a state
        // the statement speaks about
        if act.stores_nonempty() && sel.path.is_empty() {
            let leaf_is_sq = created_vr(&self.dict, sel.leaf, "UN") == "SQ" || matches!(&te, Some(e) if e.vr == "SQ");
            let applies = match act {
                Act::Set(_) | Act::SetStr(_) => true,
                Act::SetIfMissing(_) | Act::SetStrIfMissing(_) => te.is_none(),
                Act::Replace(_) | Act::ReplaceStr(_) => te.is_some(),
                // pushes onto an existing sequence are a documented error and stay in the universe
                _ => te.is_none() || matches!(&te, Some(ME { val: MV::Prim(_), .. })),
            };
            if leaf_is_sq && applies {
                return Some("skipped-primitive-into-sq");
            }
        }
        let _ = tk;
        None
    }

    /// Evaluate one transition: (state reached by `h`) --op--> ?. Returns the successor's key when the
    /// object is usable afterwards.
    fn transition(&self, l: &mut Local, h: &Hist, opi: usize, report: bool) -> Option<(u128, bool)> {
        let op = self.alpha.op(opi);
        let sel = &self.alpha.sels[op.sel];
        let act = &self.alpha.acts[op.act];
        let mut obj = self.rebuild(h);
        let pre = abstract_obj(&obj);
        if let Some(reason) = self.excluded(&pre, sel, act) {
            if report {
                l.outcome(reason);
            }
            return None;
        }
        let mut nh = h.clone();
        nh.ops.push(opi as u16);
        let case_id = nh.id(self.prefix);
        if !l.want(&case_id) {
            return None;
        }
        let (tk, _) = self.target(&pre, sel);
        let class = |stage: &str, kind: &str| json!({"stage": stage, "kind": kind, "action": act.name(), "selector": sel.name, "target": tk, "init": self.inits[h.init].name});
        let detail = |msg: String, post: Option<&MObj>| {
            json!({"history": self.labels(&nh), "init": self.inits[h.init].name, "before": show(&pre), "after": post.map(show), "message": msg})
        };
        if report {
            l.eval();
        }
        let res = guard(|| obj.apply(self.alpha.real(opi)));
        let res = match res {
            Err(p) => {
                if report {
                    l.outcome("apply-panic");
                    l.fail(&case_id, class("apply", "panic"), detail(p, None));
                }
                return None;
            }
            Ok(r) => r,
        };
        let post = abstract_obj(&obj);
        if report {
            // compare with every admissible reading of the documentation
            let mut verdict: Option<(String, String)> = None;
            let mut accepted = false;
            for rd in READINGS {
                let want = model_apply(&pre, sel, act, &self.dict, rd);
                let v: Option<(String, String)> = match (&want, &res) {
                    (Ok(w), Ok(())) => diff(w, &post, "").map(|(k, m)| (format!("model-{k}"), m)),
                    (Err(e), Err(re)) => {
                        // must be unchanged
                        let unchanged = diff(&pre, &post, "");
                        let rc = format!("{re:?}");
                        let same_class = match e {
                            MErr::MissingSequence => rc.starts_with("MissingSequence"),
                            MErr::NotASequence => rc.starts_with("NotASequence"),
                            MErr::Incompatible => rc.starts_with("IncompatibleTypes"),
                            MErr::Modify => rc.starts_with("Modify"),
                        };
                        if let Some((k, m)) = unchanged {
                            Some((format!("err-side-effect-{k}"), format!("operation returned Err({}) but changed the object: {m}", rc.chars().take(80).collect::<String>())))
                        } else if !same_class {
                            Some(("err-class".into(), format!("model error {e:?}, object error {}", rc.chars().take(120).collect::<String>())))
                        } else {
                            None
                        }
                    }
                    (Ok(_), Err(re)) => {
                        let rc: String = format!("{re:?}").chars().take(120).collect();
                        let side = diff(&pre, &post, "");
                        Some((if side.is_some() { "unexpected-err-with-side-effect".into() } else { "unexpected-err".to_string() }, format!("model: Ok; object: Err({rc}){}", side.map(|(_, m)| format!("; and changed: {m}")).unwrap_or_default())))
                    }
                    (Err(e), Ok(())) => Some(("missing-err".into(), format!("model: Err({e:?}); object: Ok"))),
                };
                match v {
                    None => {
                        accepted = true;
                        break;
                    }
                    Some(v) => {
                        if verdict.is_none() {
                            verdict = Some(v)
                        }
                    }
                }
            }
            if accepted {
                let o = match (&res, diff(&pre, &post, "").is_some()) {
                    (Ok(()), true) => "ok-changed",
                    (Ok(()), false) => "ok-unchanged",
                    (Err(_), _) => "err-unchanged",
                };
                l.outcome_with(o, || json!({"case": case_id, "history": self.labels(&nh), "after": show(&post)}));
            } else {
                let (k, m) = verdict.unwrap();
                l.outcome(&format!("apply-{}", k.split('-').take(2).collect::<Vec<_>>().join("-")));
                l.fail(&case_id, class("apply", &k), detail(m, Some(&post)));
            }
        }
        let changed = diff(&pre, &post, "").is_some() || res.is_err();
        Some((full_key(&obj), changed))
    }

    /// Invariants of one state: every TS4 x writer mode.
    fn check_state(&self, l: &mut Local, h: &Hist) {
        let obj = self.rebuild(h);
        let expected = xcanon(&obj);
        let m = abstract_obj(&obj);
        let last = h.ops.last().map(|o| self.alpha.op(*o as usize));
        let feat = features(&m, &expected, h, &self.alpha);
        let oracle_tree = x_to_ref(&expected);
        for (ti, uid) in TS4.iter().enumerate() {
            for mode in WRITE_MODES {
                let case_id = format!("{}/w{ti}{}", h.id(self.prefix), match mode {
                    WriteMode::Default => "d",
                    WriteMode::SetUndefined => "u",
                    WriteMode::NoChange => "n",
                });
                if !l.want(&case_id) {
                    continue;
                }
                // recorded lengths are byte counts of the syntax they were read in; NoChange is
                // documented not to recalculate them, so it is only meaningful in that layout
                if self.inits[h.init].recorded && mode == WriteMode::NoChange && ti != 1 && ti != 3 {
                    l.outcome("skipped-nochange-in-another-syntax");
                    continue;
                }
                l.eval();
                let class = |stage: &str, kind: &str| {
                    let mut c = feat.clone();
                    let o = c.as_object_mut().unwrap();
                    o.insert("stage".into(), json!(stage));
                    o.insert("kind".into(), json!(kind));
                    o.insert("ts".into(), json!(uid));
                    o.insert("mode".into(), json!(format!("{mode:?}")));
                    o.insert("init".into(), json!(self.inits[h.init].name));
                    o.insert("action".into(), json!(last.as_ref().map(|o| self.alpha.acts[o.act].name()).unwrap_or("-".into())));
                    o.insert("selector".into(), json!(last.as_ref().map(|o| self.alpha.sels[o.sel].name).unwrap_or("-")));
                    c
                };
                let detail = |msg: String, bytes: &[u8]| json!({"history": self.labels(h), "init": self.inits[h.init].name, "state": show(&m), "written": hex(&bytes[..bytes.len().min(200)]), "message": msg});
                let bytes = match guard(|| write_ds(&obj, uid, mode)) {
                    Err(p) => {
                        l.outcome("write-panic");
                        l.fail(&case_id, class("write", "panic"), detail(p, &[]));
                        continue;
                    }
                    Ok(Err(e)) => {
                        l.outcome("write-err");
                        l.fail(&case_id, class("write", "err"), detail(e, &[]));
                        continue;
                    }
                    Ok(Ok(b)) => b,
                };
                let plain = if ti == 3 {
                    match rds::inflate_raw(&bytes) {
                        Ok(p) => p,
                        Err(e) => {
                            l.outcome("inflate-err");
                            l.fail(&case_id, class("inflate", "invalid"), detail(e, &bytes));
                            continue;
                        }
                    }
                } else {
                    bytes.clone()
                };
                let oracle = vr_oracle(&oracle_tree, &self.dict);
                match rds::parse(ref_ts(ti), &plain, &oracle) {
                    Err(e) => {
                        l.outcome("structurally-invalid");
                        let what: String = e.msg.split(|c: char| c.is_ascii_digit()).next().unwrap_or("").trim().to_string();
                        l.fail(&case_id, class("parse", &format!("invalid: {what}")), detail(e.to_string(), &plain));
                        continue;
                    }
                    Ok(tree) => {
                        // the wire tree carries the VRs the oracle gave it in implicit VR: compare values
                        if let Err((k, msg)) = xcompare(&expected, &tree, ti == 0, ti != 0, &self.dict, "wire") {
                            l.outcome("wire-differs");
                            l.fail(&case_id, class("wire-compare", &k), detail(msg, &plain));
                            continue;
                        }
                    }
                }
                match guard(|| read_ds(&bytes, uid)) {
                    Err(p) => {
                        l.outcome("read-panic");
                        l.fail(&case_id, class("read", "panic"), detail(p, &plain));
                    }
                    Ok(Err(e)) => {
                        l.outcome("read-err");
                        l.fail(&case_id, class("read", "err"), detail(e, &plain));
                    }
                    Ok(Ok(back)) => match xcompare(&expected, &canon(&back), ti == 0, true, &self.dict, "readback") {
                        Ok(()) => l.outcome_with("state-written-valid-reads-back-equal", || json!({"case": case_id, "history": self.labels(h), "state": show(&m)})),
                        Err((k, msg)) => {
                            l.outcome("readback-differs");
                            l.fail(&case_id, class("compare", &k), detail(msg, &plain));
                        }
                    },
                }
            }
        }
    }
}

/// Features of a state that known findings can match on.
fn features(m: &MObj, x: &[XE], h: &Hist, alpha: &Alphabet) -> serde_json::Value {
    fn walk(m: &MObj, non_sq_seq: &mut bool, pix: &mut bool, confused: &mut bool, depth: usize, maxd: &mut usize) {
        *maxd = (*maxd).max(depth);
        for e in m.values() {
            match &e.val {
                MV::Seq(items) => {
                    if e.vr != "SQ" {
                        *non_sq_seq = true;
                    }
                    for i in items {
                        walk(i, non_sq_seq, pix, confused, depth + 1, maxd);
                    }
                }
                MV::Pix { .. } => *pix = true,
                MV::Prim(p) => {
                    if !consistent(&e.vr, p) {
                        *confused = true
                    }
                }
            }
        }
    }
    let (mut a, mut b, mut c, mut d) = (false, false, false, 0);
    walk(m, &mut a, &mut b, &mut c, 0, &mut d);
    let _ = x;
    let charset_op = h.ops.iter().any(|o| alpha.sels[alpha.op(*o as usize).sel].leaf == T_CS && alpha.sels[alpha.op(*o as usize).sel].path.is_empty());
    json!({"seq_under_non_sq_vr": a, "has_pixel_fragments": b, "type_confused_value": c, "depth": d, "charset_op_in_history": charset_op})
}

fn main() {
    let check = Check::from_args("C13", Level::ModelChecking);
    check.set_rule("explicit-state BFS over operation histories: 4 initial objects (empty; nested sequences + bystanders; encapsulated pixel data + character set; the nested object read from a stream with recorded lengths) x alphabet of 12 selectors (text, numeric, (0008,0005), SQ, private, unknown, SQ[0].leaf, SQ[1].leaf, SQ[0].SQ2[0].leaf, private[0].leaf, unknown[0].leaf, pixel data) x 21 actions = 252 operations; depth 2 (quick) / 3 (thorough); a state is the history re-applied to a fresh object, deduplicated by tags+VRs+value kinds+bytes+recorded lengths+bytes written with NoChange; every operation is applied in every distinct state (one transition = one case, distinct by construction), every distinct state is written in 4 TS x 3 writer modes; excluded: pushes beyond multiplicity 3, storing a non-empty primitive value into a sequence attribute. Second search (\"shadow\", depth 2 in both tiers): 4 initial objects in which the tags used as nested steps also exist in the enclosing data set (A missing and B at the top level as a sequence of 2 items for a standard, a private and an unknown tag; the private/unknown B as primitive values; A existing with B inside its item (1/0/3 items) and at the top level (2 items); the same read with recorded lengths; the leaf tag present at every level with different values) x 21 selectors (A[0].B[j].leaf for 3 B x j in 0..2, A[1].B[0].leaf, A[0].US-tag[0].leaf, A[0].leaf, and A, the three B and the leaf at the top level) x 10 actions in quick (5 constructive, 5 non-constructive; a subsample of the 21 actions) / all 21 actions in thorough");
    check.assume("reference model written from the AttributeAction / is_constructive / ApplyOp / PrimitiveValue::extend_* / truncate documentation; number-to-text conversion is Rust's Display; VR of a created attribute is the dictionary VR, else UN (text, Set) or the natural VR of the pushed number type");
    check.assume("vx-ref strict parser and the extracted dictionary table are trusted; values whose kind contradicts their VR after a caller-made type confusion (e.g. SetVr(US) on text) are checked for presence, VR and structural validity only; trailing padding may be NUL or space");
    check.assume("SetVr on a missing attribute may either do nothing or create an empty attribute (documentation open); SetVr on a sequence or pixel sequence is ignored");
    let main_ctx = Ctx { prefix: "h", dict: Dict::load(), alpha: Alphabet { sels: selectors(), acts: actions() }, inits: initial_states() };
    let shadow_ctx = Ctx { prefix: "s", dict: Dict::load(), alpha: Alphabet { sels: shadow_selectors(), acts: shadow_actions(check.thorough()) }, inits: shadow_initial_states() };
    check.extra("operations", json!(main_ctx.alpha.n()));
    check.extra("initial_states", json!(main_ctx.inits.len()));
    check.extra("shadow_operations", json!(shadow_ctx.alpha.n()));
    check.extra("shadow_initial_states", json!(shadow_ctx.inits.len()));

    // replay: one history (transition of its last op, or one written state)
    if check.replaying() {
        let cid = check.replay.as_ref().and_then(|v| v.get("case_id")).and_then(|c| c.as_str()).unwrap_or("").to_string();
        let mut l = check.local();
        let parts: Vec<&str> = cid.split('/').collect();
        let ctx = if parts.first() == Some(&"s") { &shadow_ctx } else { &main_ctx };
        let hid = parts.iter().take(3).cloned().collect::<Vec<_>>().join("/");
        match Hist::parse(&hid) {
            Some(h) if parts.len() == 4 => ctx.check_state(&mut l, &h),
            Some(mut h) if !h.ops.is_empty() => {
                let last = h.ops.pop().unwrap();
                ctx.transition(&mut l, &h, last as usize, true);
            }
            _ => eprintln!("cannot parse case id {cid}"),
        }
        drop(l);
        check.finish();
    }

    let r1 = search(&check, &main_ctx, check.pick(2, 3));
    let r2 = search(&check, &shadow_ctx, 2);
    check.add_states(r1.states + r2.states);
    check.add_transitions(r1.transitions + r2.transitions);
    // every transition replays its whole history on the real object, compared with the model
    check.add_traces(r1.transitions + r2.transitions);
    check.extra("main_search", r1.json);
    check.extra("shadow_search", r2.json);
    check.finish();
}

struct SearchResult {
    states: u64,
    transitions: u64,
    json: serde_json::Value,
}

fn search(check: &Check, ctx: &Ctx, depth: usize) -> SearchResult {
    let nops = ctx.alpha.n();
    // initial states: abstraction of the real object == independent description
    let mut seen: HashSet<u128> = HashSet::new();
    let mut frontier: Vec<Hist> = vec![];
    {
        let mut l = check.local();
        for (i, init) in ctx.inits.iter().enumerate() {
            let obj = build_init(init);
            // (an object read from a stream holds dates as text: kinds are not compared for it)
            if let Some((k, m)) = diff_k(&model_of_nodes(&init.nodes), &abstract_obj(&obj), "", !init.recorded) {
                check.machinery_error(&format!("initial state {}: abstraction differs from its description ({k}): {m}", init.name));
            }
            seen.insert(full_key(&obj));
            let h = Hist { init: i, ops: vec![] };
            ctx.check_state(&mut l, &h);
            frontier.push(h);
        }
    }
    let mut states = frontier.len() as u64;
    let mut transitions = 0u64;
    let mut per_depth = vec![json!({"depth": 0, "states": frontier.len()})];
    let mut fixpoint = false;
    for d in 1..=depth {
        let n = frontier.len() * nops;
        let found: Mutex<Vec<(u128, u32, u16)>> = Mutex::new(vec![]);
        let seen_ref = &seen;
        let fr = &frontier;
        let cnt = std::sync::atomic::AtomicU64::new(0);
        check.par_range(n as u64, |l, i| {
            let si = i as usize / nops;
            let opi = i as usize % nops;
            let h = &fr[si];
            if let Some((key, _changed)) = ctx.transition(l, h, opi, true) {
                cnt.fetch_add(1, std::sync::atomic::Ordering::Relaxed);
                l.nontrivial_distinct_by_construction(1);
                if !seen_ref.contains(&key) {
                    found.lock().unwrap().push((key, si as u32, opi as u16));
                }
            }
        });
        transitions += cnt.load(std::sync::atomic::Ordering::Relaxed);
        // deterministic choice of the representative history: smallest (state index, op index)
        let mut found = found.into_inner().unwrap();
        found.sort_by_key(|f| (f.1, f.2));
        let mut next: Vec<Hist> = vec![];
        for (key, si, opi) in found {
            if seen.insert(key) {
                let mut h = frontier[si as usize].clone();
                h.ops.push(opi);
                next.push(h);
            }
        }
        states += next.len() as u64;
        per_depth.push(json!({"depth": d, "new_states": next.len(), "transitions_so_far": transitions}));
        // invariants in every new state
        let nx = &next;
        check.par_range(nx.len() as u64, |l, i| {
            ctx.check_state(l, &nx[i as usize]);
        });
        frontier = next;
        if frontier.is_empty() {
            fixpoint = true;
            break;
        }
    }
    SearchResult {
        states,
        transitions,
        json: json!({"depth_bound": depth, "per_depth": per_depth, "frontier_emptied": fixpoint, "unexpanded_states_at_bound": frontier.len(), "operations": nops}),
    }
}
