//! C02 — reading and rewriting a canonical stream reproduces it byte for byte.
//!
//! Streams come from the reference encoder (vx_ref::ds::encode_items), never from dicom-rs.
//! For every data set of the universe, every transfer syntax of TS3 and every assignment of
//! {defined, undefined} length to each sequence and item, the stream is read with
//! `read_dataset_with_ts` and written back
//!   * with `ExplicitLengthSqItemStrategy::NoChange`              (every assignment), and
//!   * with the default writer and with options `SetUndefined`     (all-undefined assignment only);
//! the output must equal the input bytes.
use vx_data::rt::describe;
use vx_data::*;
use vx_kit::{guard, json, Check, Level, Local, Value};

fn class_with(base: &Value, extra: Value) -> Value {
    let mut m = base.as_object().unwrap().clone();
    for (k, v) in extra.as_object().unwrap() {
        m.insert(k.clone(), v.clone());
    }
    Value::Object(m)
}

/// Facts about one length assignment, computed by walking the nodes in the container order of
/// `to_ref` (pre-order: sequence, then each of its items).
#[derive(Default, Debug)]
struct MaskFacts {
    seq_defined: u32,
    item_defined: u32,
    private_sq_defined: bool,
    empty_container_defined: bool,
}

fn mask_facts(nodes: &[Node], mask: u32) -> MaskFacts {
    fn walk(nodes: &[Node], mask: u32, counter: &mut u32, f: &mut MaskFacts) {
        for n in nodes {
            if let Node::Seq { items, tclass, .. } = n {
                let e = mask & (1 << *counter) != 0;
                *counter += 1;
                if e {
                    f.seq_defined += 1;
                    if *tclass == "private" {
                        f.private_sq_defined = true;
                    }
                    if items.is_empty() {
                        f.empty_container_defined = true;
                    }
                }
                for it in items {
                    let e = mask & (1 << *counter) != 0;
                    *counter += 1;
                    if e {
                        f.item_defined += 1;
                        if it.is_empty() {
                            f.empty_container_defined = true;
                        }
                    }
                    walk(it, mask, counter, f);
                }
            }
        }
    }
    let mut f = MaskFacts::default();
    let mut c = 0;
    walk(nodes, mask, &mut c, &mut f);
    f
}

fn has_pix(nodes: &[Node]) -> bool {
    nodes.iter().any(|n| matches!(n, Node::Pix { .. }))
}
fn has_charset(nodes: &[Node]) -> bool {
    nodes.iter().any(|n| match n {
        Node::Prim(a) => a.tclass == "charset",
        Node::Seq { items, .. } => items.iter().any(|it| has_charset(it)),
        _ => false,
    })
}

/// index of the first differing byte and a short window around it
fn first_diff(a: &[u8], b: &[u8]) -> (usize, String, String) {
    let i = a.iter().zip(b).position(|(x, y)| x != y).unwrap_or(a.len().min(b.len()));
    let lo = i.saturating_sub(8);
    (i, hex(&a[lo..a.len().min(i + 12)]), hex(&b[lo..b.len().min(i + 12)]))
}

const MAX_CONTAINERS: u32 = 8;

fn run_case(l: &mut Local, idx: usize, nodes: &[Node]) {
    if has_charset(nodes) {
        // the statement is about the default character repertoire
        l.outcome("skipped-specific-character-set");
        return;
    }
    let nc = count_containers(nodes);
    let masks: Vec<u32> = if nc > MAX_CONTAINERS { vec![0, (1u32 << nc) - 1] } else { (0..(1u32 << nc)).collect() };
    let desc = describe(nodes);
    for (ti, uid) in TS4.iter().enumerate().take(3) {
        if has_pix(nodes) && ti != 1 {
            // encapsulated pixel data only exists in the Explicit VR LE layout (PS3.5 A.4)
            l.outcome("skipped-encapsulated-outside-explicit-le");
            continue;
        }
        for &mask in &masks {
            let facts = mask_facts(nodes, mask);
            if ti == 0 && facts.private_sq_defined {
                // a private sequence with a defined length is an opaque UN value in Implicit VR, by design
                l.outcome("skipped-implicit-private-sq-defined-length");
                continue;
            }
            let expected = to_ref(nodes, mask);
            let stream = vx_ref::ds::encode_items(ref_ts(ti), &expected);
            let modes: &[WriteMode] = if mask == 0 { &[WriteMode::NoChange, WriteMode::Default, WriteMode::SetUndefined] } else { &[WriteMode::NoChange] };
            // one read per mode so that a replay of one case id is self-contained
            for &mode in modes {
                let case_id = format!("ds{idx}/ts{ti}/mask{mask}/{mode:?}");
                if !l.want(&case_id) {
                    continue;
                }
                l.eval();
                let base = class_with(
                    &desc,
                    json!({"ts": uid, "mode": format!("{mode:?}"),
                           "seq_defined": facts.seq_defined > 0, "item_defined": facts.item_defined > 0,
                           "empty_container_defined": facts.empty_container_defined}),
                );
                let detail = |m: String| json!({"dataset": labels(nodes), "mask": mask, "stream": hex(&stream[..stream.len().min(400)]), "message": m});
                let obj = match guard(|| read_ds(&stream, uid)) {
                    Ok(Ok(o)) => o,
                    Ok(Err(e)) => {
                        l.outcome("read-err");
                        l.fail(&case_id, class_with(&base, json!({"stage": "read", "kind": "err"})), detail(e));
                        continue;
                    }
                    Err(p) => {
                        l.outcome("read-panic");
                        l.fail(&case_id, class_with(&base, json!({"stage": "read", "kind": "panic"})), detail(p));
                        continue;
                    }
                };
                // reached the writer: this is a distinct non-trivial case (distinct by stream and mode)
                l.nontrivial(&(ti, &stream, mode as u8));
                let out = match guard(|| write_ds(&obj, uid, mode)) {
                    Ok(Ok(b)) => b,
                    Ok(Err(e)) => {
                        l.outcome("write-err");
                        l.fail(&case_id, class_with(&base, json!({"stage": "write", "kind": "err"})), detail(e));
                        continue;
                    }
                    Err(p) => {
                        l.outcome("write-panic");
                        l.fail(&case_id, class_with(&base, json!({"stage": "write", "kind": "panic"})), detail(p));
                        continue;
                    }
                };
                if out == stream {
                    let name = if mask == 0 { "identical-all-undefined" } else { "identical-with-defined-lengths" };
                    l.outcome_with(name, || json!({"case": case_id, "dataset": labels(nodes), "mask": mask, "stream": hex(&stream[..stream.len().min(96)])}));
                } else {
                    l.outcome("bytes-differ");
                    let (at, want, got) = first_diff(&stream, &out);
                    let len_cmp = match out.len().cmp(&stream.len()) {
                        std::cmp::Ordering::Less => "shorter",
                        std::cmp::Ordering::Equal => "same-length",
                        std::cmp::Ordering::Greater => "longer",
                    };
                    l.fail(
                        &case_id,
                        class_with(&base, json!({"stage": "compare", "kind": "bytes-differ", "len_cmp": len_cmp})),
                        json!({"dataset": labels(nodes), "mask": mask, "first_diff_at": at, "input_len": stream.len(), "output_len": out.len(),
                               "input_window": want, "output_window": got, "stream": hex(&stream[..stream.len().min(400)]), "output": hex(&out[..out.len().min(400)])}),
                    );
                }
            }
        }
    }
}

fn main() {
    let check = Check::from_args("C02", Level::Exploration);
    check.set_rule("every data set of DS(1,0) ∪ DS_r(2,2) ∪ DS_r(3,2) ∪ DS(2,0) (quick = thorough), default repertoire only, encoded by the reference encoder in each of the 3 uncompressed syntaxes with every assignment of defined/undefined length to each sequence and item (2^containers, containers ≤ 8); read with read_dataset_with_ts; written with NoChange (every assignment) and with the default writer and SetUndefined (all-undefined assignment); a case is (data set, syntax, assignment, writer); non-trivial = the stream was read and handed to the writer; distinct by (syntax, stream bytes, writer)");
    check.assume("vx-ref encoder (written from PS3.5 7.1, 7.5, A.4) produces the canonical stream: ascending tags, even lengths, PS3.5 padding byte per VR");
    check.assume("encapsulated pixel data is exercised in the Explicit VR LE layout only; a private sequence with defined length in Implicit VR LE is an opaque UN value by design and is skipped (counted)");
    let mut uni = ds1();
    uni.extend(ds_nested(2));
    uni.extend(ds_nested(3));
    uni.extend(ds2());
    check.extra("universe_datasets", json!(uni.len()));
    if uni.iter().any(|n| count_containers(n) > MAX_CONTAINERS) {
        check.cap("data sets with more than 8 containers: only the all-undefined and all-defined shapes");
    }
    check.par_range(uni.len() as u64, |l, i| run_case(l, i as usize, &uni[i as usize]));
    check.finish();
}
