//! vx-data: shared universes, builders and the canonical comparison (DESIGN.md 2.2, 2.3)
//! for the data-plane checks.

use dicom_core::header::{DataElement, HasLength, Header, Length};
use dicom_core::value::{
    DataSetSequence, DicomDate, DicomDateTime, DicomTime, PixelFragmentSequence, PrimitiveValue,
    Value, C,
};
use dicom_core::{Tag, VR};
use dicom_encoding::transfer_syntax::TransferSyntaxIndex;
use dicom_encoding::TransferSyntax;
use dicom_object::mem::InMemElement;
use dicom_object::InMemDicomObject;
use dicom_parser::dataset::write::{DataSetWriterOptions, ExplicitLengthSqItemStrategy};
use dicom_transfer_syntax_registry::TransferSyntaxRegistry;
use std::collections::HashMap;
use vx_ref::ds::{self as rds, RElem, RItem, RVal, Ts};

pub mod dict;
pub use dict::Dict;

pub const DEFLATED_UID: &str = "1.2.840.10008.1.2.1.99";

/// The four writable data set transfer syntaxes of C01 (index 3 = Deflated Explicit VR LE).
pub const TS4: [&str; 4] = [
    "1.2.840.10008.1.2",
    "1.2.840.10008.1.2.1",
    "1.2.840.10008.1.2.2",
    DEFLATED_UID,
];

pub fn ts_by_uid(uid: &str) -> &'static TransferSyntax {
    TransferSyntaxRegistry.get(uid).unwrap_or_else(|| panic!("transfer syntax {uid} not in registry"))
}

/// reference syntax that describes the *uncompressed* layout of TS4[i]
pub fn ref_ts(i: usize) -> Ts {
    match i {
        0 => Ts::ImplicitLE,
        1 | 3 => Ts::ExplicitLE,
        2 => Ts::ExplicitBE,
        _ => unreachable!(),
    }
}

pub fn vr_of_str(s: &str) -> VR {
    s.parse().unwrap_or_else(|_| panic!("bad VR {s}"))
}
pub fn vr_code(v: VR) -> [u8; 2] {
    let s = v.to_string();
    [s.as_bytes()[0], s.as_bytes()[1]]
}

// ---------------------------------------------------------------------------------------------
// Atoms
// ---------------------------------------------------------------------------------------------

#[derive(Clone, Debug)]
pub struct Atom {
    pub tag: (u16, u16),
    pub vr: &'static str,
    pub value: PrimitiveValue,
    /// expected value bytes: little endian, unpadded, text joined with backslash
    pub le: Vec<u8>,
    /// short label of the value shape
    pub shape: &'static str,
    /// tag class: std / private / unknown / special
    pub tclass: &'static str,
}

#[derive(Clone, Debug)]
pub enum Node {
    Prim(Atom),
    Seq { tag: (u16, u16), items: Vec<Vec<Node>>, tclass: &'static str },
    Pix { vr: &'static str, offsets: Vec<u32>, frags: Vec<Vec<u8>>, shape: &'static str },
}

impl Node {
    pub fn tag(&self) -> (u16, u16) {
        match self {
            Node::Prim(a) => a.tag,
            Node::Seq { tag, .. } => *tag,
            Node::Pix { .. } => (0x7FE0, 0x0010),
        }
    }
    pub fn label(&self) -> String {
        match self {
            Node::Prim(a) => format!("({:04X},{:04X}){}:{}", a.tag.0, a.tag.1, a.vr, a.shape),
            Node::Seq { tag, items, .. } => format!(
                "({:04X},{:04X})SQ[{}]",
                tag.0,
                tag.1,
                items.iter().map(|it| format!("{{{}}}", labels(it))).collect::<Vec<_>>().join(",")
            ),
            Node::Pix { vr, shape, .. } => format!("PIX:{vr}:{shape}"),
        }
    }
}
pub fn labels(nodes: &[Node]) -> String {
    nodes.iter().map(|n| n.label()).collect::<Vec<_>>().join(" ")
}

fn strs(v: &[&str]) -> PrimitiveValue {
    PrimitiveValue::Strs(v.iter().map(|s| s.to_string()).collect())
}

/// Value alphabet V(vr): (shape, value, expected LE bytes)
pub fn values_for(vr: &'static str) -> Vec<(&'static str, PrimitiveValue, Vec<u8>)> {
    use PrimitiveValue as P;
    let t = |shape: &'static str, s: &str| (shape, P::Str(s.to_string()), s.as_bytes().to_vec());
    let m = |shape: &'static str, v: &[&str]| (shape, strs(v), v.join("\\").into_bytes());
    let empty = ("empty", P::Empty, vec![]);
    match vr {
        "AE" => vec![empty, t("odd", "A"), t("even", "AB"), m("multi", &["A", "BC"])],
        "AS" => vec![empty, t("even", "012Y")],
        "CS" => vec![empty, t("odd", "A"), t("even", "AB"), m("multi", &["A", "BC"]), m("multi-even", &["A", "B2C"])],
        "DA" => vec![
            empty,
            t("even", "20200101"),
            m("multi-odd", &["20200101", "19991231"]),
            ("typed", P::Date(C::from_elem(DicomDate::from_ymd(2020, 2, 29).unwrap(), 1)), b"20200229".to_vec()),
            ("typed-odd", P::Date(C::from_vec(vec![DicomDate::from_ym(2020, 2).unwrap(), DicomDate::from_y(1999).unwrap()])), b"202002\\1999".to_vec()),
            ("typed-multi3", P::Date(C::from_vec(vec![DicomDate::from_ymd(2020, 2, 29).unwrap(), DicomDate::from_ymd(1999, 12, 31).unwrap(), DicomDate::from_y(1).unwrap()])), b"20200229\\19991231\\0001".to_vec()),
        ],
        "DS" => vec![
            empty,
            t("odd", "1.5"),
            t("even", "12"),
            m("multi", &["1", "2.5"]),
            ("num", P::F64(C::from_elem(1.5, 1)), b"1.5".to_vec()),
            ("num-multi", P::F64(C::from_vec(vec![0.25, -2.5])), b"0.25\\-2.5".to_vec()),
        ],
        "DT" => vec![
            empty,
            t("even", "2020"),
            t("odd", "20200101123"),
            m("multi", &["2020", "202101"]),
            (
                "typed",
                P::DateTime(C::from_elem(
                    DicomDateTime::from_date_and_time(
                        DicomDate::from_ymd(2020, 1, 2).unwrap(),
                        DicomTime::from_hms(3, 4, 5).unwrap(),
                    )
                    .unwrap(),
                    1,
                )),
                b"20200102030405".to_vec(),
            ),
            (
                "typed-multi",
                P::DateTime(C::from_vec(vec![
                    DicomDateTime::from_date_and_time(DicomDate::from_ymd(2020, 1, 2).unwrap(), DicomTime::from_hms(3, 4, 5).unwrap()).unwrap(),
                    DicomDateTime::from_date_and_time(DicomDate::from_ymd(1999, 12, 31).unwrap(), DicomTime::from_hms(23, 59, 59).unwrap()).unwrap(),
                ])),
                b"20200102030405\\19991231235959".to_vec(),
            ),
            (
                "typed-multi3",
                P::DateTime(C::from_vec(vec![
                    DicomDateTime::from_date(DicomDate::from_y(2020).unwrap()),
                    DicomDateTime::from_date(DicomDate::from_ym(2021, 3).unwrap()),
                    DicomDateTime::from_date_and_time(DicomDate::from_ymd(1999, 12, 31).unwrap(), DicomTime::from_hm(23, 59).unwrap()).unwrap(),
                ])),
                b"2020\\202103\\199912312359".to_vec(),
            ),
        ],
        "IS" => vec![
            empty,
            t("odd", "7"),
            t("even", "12"),
            m("multi", &["1", "23"]),
            ("num", P::I32(C::from_elem(-7, 1)), b"-7".to_vec()),
            ("num-multi", P::I32(C::from_vec(vec![1, 234])), b"1\\234".to_vec()),
        ],
        "LO" => vec![empty, t("odd", "Abc"), t("even", "Ab c"), m("multi", &["A", "BC"])],
        "LT" => vec![empty, t("odd", "Abc"), t("even", "Ab\\c")],
        "PN" => vec![empty, t("odd", "A^B"), t("even", "AB^C"), t("groups", "A^B=C^D=E"), m("multi", &["A^B", "C"])],
        "SH" => vec![empty, t("odd", "Abc"), t("even", "Ab"), m("multi", &["A", "BC"])],
        "ST" => vec![empty, t("odd", "Abc"), t("even", "Ab\\c")],
        "TM" => vec![
            empty,
            t("even", "1230"),
            t("odd", "123015.5"),
            m("multi", &["12", "1230"]),
            ("typed", P::Time(C::from_elem(DicomTime::from_hms(1, 2, 3).unwrap(), 1)), b"010203".to_vec()),
            ("typed-odd", P::Time(C::from_elem(DicomTime::from_hms_milli(1, 2, 3, 4).unwrap(), 1)), b"010203.004".to_vec()),
            ("typed-multi", P::Time(C::from_vec(vec![DicomTime::from_hms(1, 2, 3).unwrap(), DicomTime::from_hm(23, 59).unwrap(), DicomTime::from_h(7).unwrap()])), b"010203\\2359\\07".to_vec()),
        ],
        "UC" => vec![empty, t("odd", "Abc"), t("even", "Ab"), m("multi", &["A", "BC"])],
        "UI" => vec![empty, t("odd", "1.2"), t("even", "1.23"), m("multi", &["1.2", "3.4"]), m("multi-even", &["1.2", "3.45"])],
        "UR" => vec![empty, t("odd", "x:y"), t("even", "http://a")],
        "UT" => vec![empty, t("odd", "Abc"), t("even", "Ab\\c")],
        "US" => vec![
            empty,
            ("one", P::U16(C::from_elem(0x0102, 1)), vec![2, 1]),
            ("two", P::U16(C::from_vec(vec![0, 0xFFFF])), vec![0, 0, 0xFF, 0xFF]),
        ],
        "SS" => vec![
            empty,
            ("one", P::I16(C::from_elem(-2, 1)), vec![0xFE, 0xFF]),
            ("two", P::I16(C::from_vec(vec![i16::MIN, 0x0102])), vec![0, 0x80, 2, 1]),
        ],
        "UL" => vec![
            empty,
            ("one", P::U32(C::from_elem(0x01020304, 1)), vec![4, 3, 2, 1]),
            ("two", P::U32(C::from_vec(vec![u32::MAX, 1])), vec![0xFF, 0xFF, 0xFF, 0xFF, 1, 0, 0, 0]),
        ],
        "SL" => vec![
            empty,
            ("one", P::I32(C::from_elem(-2, 1)), vec![0xFE, 0xFF, 0xFF, 0xFF]),
            ("two", P::I32(C::from_vec(vec![i32::MIN, 0x01020304])), vec![0, 0, 0, 0x80, 4, 3, 2, 1]),
        ],
        "UV" => vec![
            empty,
            ("one", P::U64(C::from_elem(0x0102030405060708, 1)), vec![8, 7, 6, 5, 4, 3, 2, 1]),
            ("two", P::U64(C::from_vec(vec![u64::MAX, 1])), [vec![0xFF; 8], vec![1, 0, 0, 0, 0, 0, 0, 0]].concat()),
        ],
        "SV" => vec![
            empty,
            ("one", P::I64(C::from_elem(-2, 1)), [vec![0xFE], vec![0xFF; 7]].concat()),
            ("two", P::I64(C::from_vec(vec![i64::MIN, 0x0102030405060708])), vec![0, 0, 0, 0, 0, 0, 0, 0x80, 8, 7, 6, 5, 4, 3, 2, 1]),
        ],
        "FL" => vec![
            empty,
            ("one", P::F32(C::from_elem(1.5, 1)), 1.5f32.to_le_bytes().to_vec()),
            ("two", P::F32(C::from_vec(vec![-0.0, f32::MAX])), [(-0.0f32).to_le_bytes(), f32::MAX.to_le_bytes()].concat()),
        ],
        "FD" => vec![
            empty,
            ("one", P::F64(C::from_elem(1.5, 1)), 1.5f64.to_le_bytes().to_vec()),
            ("two", P::F64(C::from_vec(vec![-0.0, f64::MIN_POSITIVE])), [(-0.0f64).to_le_bytes(), f64::MIN_POSITIVE.to_le_bytes()].concat()),
        ],
        "AT" => vec![
            empty,
            ("one", P::Tags(C::from_elem(Tag(0x0102, 0x0304), 1)), vec![2, 1, 4, 3]),
            ("two", P::Tags(C::from_vec(vec![Tag(0x0008, 0x0005), Tag(0xFFFE, 0xE000)])), vec![8, 0, 5, 0, 0xFE, 0xFF, 0, 0xE0]),
        ],
        "OB" | "UN" => vec![
            empty,
            ("odd1", P::U8(C::from_vec(vec![0x80])), vec![0x80]),
            ("even", P::U8(C::from_vec(vec![1, 2])), vec![1, 2]),
            ("odd3", P::U8(C::from_vec(vec![1, 0, 0x20])), vec![1, 0, 0x20]),
        ],
        "OW" => vec![
            empty,
            ("one", P::U16(C::from_elem(0x0102, 1)), vec![2, 1]),
            ("two", P::U16(C::from_vec(vec![0x8001, 0xFFFE])), vec![1, 0x80, 0xFE, 0xFF]),
        ],
        "OL" => vec![
            empty,
            ("one", P::U32(C::from_elem(0x01020304, 1)), vec![4, 3, 2, 1]),
            ("two", P::U32(C::from_vec(vec![u32::MAX, 1])), vec![0xFF, 0xFF, 0xFF, 0xFF, 1, 0, 0, 0]),
        ],
        "OV" => vec![
            empty,
            ("one", P::U64(C::from_elem(0x0102030405060708, 1)), vec![8, 7, 6, 5, 4, 3, 2, 1]),
        ],
        "OF" => vec![
            empty,
            ("one", P::F32(C::from_elem(1.5, 1)), 1.5f32.to_le_bytes().to_vec()),
            ("two", P::F32(C::from_vec(vec![-2.25, 1e-20])), [(-2.25f32).to_le_bytes(), 1e-20f32.to_le_bytes()].concat()),
        ],
        "OD" => vec![
            empty,
            ("one", P::F64(C::from_elem(1.5, 1)), 1.5f64.to_le_bytes().to_vec()),
            ("two", P::F64(C::from_vec(vec![-2.25, 1e-200])), [(-2.25f64).to_le_bytes(), 1e-200f64.to_le_bytes()].concat()),
        ],
        _ => panic!("no alphabet for VR {vr}"),
    }
}

/// One standard tag whose dictionary VR is exactly that VR.
pub fn std_tag(vr: &str) -> (u16, u16) {
    match vr {
        "AE" => (0x0008, 0x0054),
        "AS" => (0x0010, 0x1010),
        "AT" => (0x0020, 0x9165),
        "CS" => (0x0008, 0x0008),
        "DA" => (0x0008, 0x0020),
        "DS" => (0x0010, 0x1020),
        "DT" => (0x0008, 0x002A),
        "FD" => (0x0008, 0x1163),
        "FL" => (0x0008, 0x9459),
        "IS" => (0x0008, 0x1160),
        "LO" => (0x0008, 0x0070),
        "LT" => (0x0008, 0x0108),
        "OB" => (0x0008, 0x041B),
        "OD" => (0x0014, 0x410C),
        "OF" => (0x0014, 0x410B),
        "OL" => (0x0066, 0x0040),
        "OV" => (0x0072, 0x0081),
        "OW" => (0x0014, 0x410A),
        "PN" => (0x0008, 0x0090),
        "SH" => (0x0008, 0x0050),
        "SL" => (0x0014, 0x4108),
        "SQ" => (0x0008, 0x1140),
        "SS" => (0x0018, 0x9219),
        "ST" => (0x0008, 0x0081),
        "SV" => (0x0072, 0x0082),
        "TM" => (0x0008, 0x0030),
        "UC" => (0x0008, 0x0119),
        "UI" => (0x0008, 0x0018),
        "UL" => (0x0008, 0x0309),
        "UN" => (0x0072, 0x006D),
        "UR" => (0x0008, 0x010E),
        "US" => (0x0008, 0x0301),
        "UT" => (0x0008, 0x030E),
        "UV" => (0x0008, 0x040C),
        _ => panic!("no std tag for {vr}"),
    }
}

pub const PRIM_VRS: [&str; 33] = [
    "AE", "AS", "AT", "CS", "DA", "DS", "DT", "FL", "FD", "IS", "LO", "LT", "OB", "OD", "OF", "OL",
    "OV", "OW", "PN", "SH", "SL", "SS", "ST", "SV", "TM", "UC", "UI", "UL", "UN", "UR", "US", "UT",
    "UV",
];

/// private data element number for a VR (inside block 0x10 of group 0009)
fn private_elem(vr: &str) -> u16 {
    0x1000 + PRIM_VRS.iter().position(|v| *v == vr).unwrap() as u16
}
/// an even-group tag that the dictionary does not know, per VR
fn unknown_elem(vr: &str) -> (u16, u16) {
    (0x0012, 0x9900 + PRIM_VRS.iter().position(|v| *v == vr).unwrap() as u16)
}

pub fn private_creator() -> Atom {
    Atom {
        tag: (0x0009, 0x0010),
        vr: "LO",
        value: PrimitiveValue::Str("VX".into()),
        le: b"VX".to_vec(),
        shape: "creator",
        tclass: "private-creator",
    }
}

/// The full atom set A: every VR x value alphabet on a standard tag, plus private and unknown tags
/// for a subset of shapes, plus the special tags.
pub fn atoms() -> Vec<Atom> {
    let mut out = vec![];
    for vr in PRIM_VRS {
        for (shape, value, le) in values_for(vr) {
            out.push(Atom { tag: std_tag(vr), vr, value: value.clone(), le: le.clone(), shape, tclass: "std" });
        }
        // private + unknown: first non-empty and last shape
        let vals = values_for(vr);
        let picks: Vec<usize> = if vals.len() > 2 { vec![1, vals.len() - 1] } else { vec![1] };
        for i in picks {
            let (shape, value, le) = vals[i].clone();
            out.push(Atom { tag: (0x0009, private_elem(vr)), vr, value: value.clone(), le: le.clone(), shape, tclass: "private" });
            out.push(Atom { tag: unknown_elem(vr), vr, value, le, shape, tclass: "unknown" });
        }
    }
    out.extend(special_atoms());
    out
}

pub fn special_atoms() -> Vec<Atom> {
    use PrimitiveValue as P;
    vec![
        // group length element of group 0008
        Atom { tag: (0x0008, 0x0000), vr: "UL", value: P::U32(C::from_elem(4, 1)), le: vec![4, 0, 0, 0], shape: "one", tclass: "group-length" },
        // Specific Character Set: default repertoire, explicitly named
        Atom { tag: (0x0008, 0x0005), vr: "CS", value: P::Str("ISO_IR 100".into()), le: b"ISO_IR 100".to_vec(), shape: "latin1", tclass: "charset" },
        Atom { tag: (0x0008, 0x0005), vr: "CS", value: P::Str("ISO_IR 192".into()), le: b"ISO_IR 192".to_vec(), shape: "utf8", tclass: "charset" },
        // Pixel representation (signed) then an xs attribute
        Atom { tag: (0x0028, 0x0103), vr: "US", value: P::U16(C::from_elem(1, 1)), le: vec![1, 0], shape: "signed", tclass: "pixrep" },
        Atom { tag: (0x0028, 0x0106), vr: "SS", value: P::I16(C::from_elem(-2, 1)), le: vec![0xFE, 0xFF], shape: "xs-signed", tclass: "xs" },
        Atom { tag: (0x0028, 0x0107), vr: "US", value: P::U16(C::from_elem(0x0102, 1)), le: vec![2, 1], shape: "xs-unsigned", tclass: "xs" },
        // overlay data (repeating group, ox)
        Atom { tag: (0x6002, 0x3000), vr: "OW", value: P::U16(C::from_elem(0x0102, 1)), le: vec![2, 1], shape: "one", tclass: "overlay" },
        // native pixel data
        Atom { tag: (0x7FE0, 0x0010), vr: "OW", value: P::U16(C::from_vec(vec![0x0102, 0x8001])), le: vec![2, 1, 1, 0x80], shape: "native-ow", tclass: "pixel" },
        Atom { tag: (0x7FE0, 0x0010), vr: "OB", value: P::U8(C::from_vec(vec![1, 2, 3])), le: vec![1, 2, 3], shape: "native-ob-odd", tclass: "pixel" },
    ]
}

/// Reduced atoms A_r: one per distinct code path.
pub fn reduced_atoms() -> Vec<Atom> {
    let pick = |vr: &'static str, shape: &str, tclass: &'static str| -> Atom {
        let (s, value, le) = values_for(vr).into_iter().find(|(s, _, _)| *s == shape).unwrap_or_else(|| panic!("{vr} {shape}"));
        let tag = match tclass {
            "std" => std_tag(vr),
            "private" => (0x0009, private_elem(vr)),
            _ => unknown_elem(vr),
        };
        Atom { tag, vr, value, le, shape: s, tclass }
    };
    vec![
        pick("LO", "odd", "std"),
        pick("LO", "empty", "std"),
        pick("SH", "multi", "std"),
        pick("UI", "odd", "std"),
        pick("UI", "multi", "std"),
        pick("PN", "groups", "std"),
        pick("UT", "odd", "std"),
        pick("DA", "typed", "std"),
        pick("TM", "typed-odd", "std"),
        pick("DS", "num-multi", "std"),
        pick("IS", "num", "std"),
        pick("US", "one", "std"),
        pick("SS", "two", "std"),
        pick("UL", "one", "std"),
        pick("FL", "one", "std"),
        pick("FD", "two", "std"),
        pick("SV", "one", "std"),
        pick("AT", "two", "std"),
        pick("OB", "odd3", "std"),
        pick("OB", "even", "std"),
        pick("OW", "two", "std"),
        pick("OF", "one", "std"),
        pick("UN", "odd1", "std"),
        pick("LO", "odd", "private"),
        pick("US", "one", "private"),
        pick("OB", "odd3", "private"),
        pick("LO", "odd", "unknown"),
        pick("UL", "one", "unknown"),
    ]
}

// ---------------------------------------------------------------------------------------------
// Data set universes
// ---------------------------------------------------------------------------------------------

fn needs_creator(nodes: &[Node]) -> bool {
    nodes.iter().any(|n| {
        let t = n.tag();
        t.0 == 0x0009 && t.1 >= 0x1000
    })
}

/// Sort ascending by tag, reject duplicates, add the private creator when a private element is present.
pub fn normalize(mut nodes: Vec<Node>) -> Option<Vec<Node>> {
    if needs_creator(&nodes) && !nodes.iter().any(|n| n.tag() == (0x0009, 0x0010)) {
        nodes.push(Node::Prim(private_creator()));
    }
    nodes.sort_by_key(|n| n.tag());
    for w in nodes.windows(2) {
        if w[0].tag() == w[1].tag() {
            return None;
        }
    }
    // xs atoms are only meaningful with the matching pixel representation before them
    let has_signed = nodes.iter().any(|n| matches!(n, Node::Prim(a) if a.tclass == "pixrep"));
    for n in &nodes {
        if let Node::Prim(a) = n {
            if a.shape == "xs-signed" && !has_signed {
                return None;
            }
            if a.shape == "xs-unsigned" && has_signed {
                return None;
            }
        }
    }
    Some(nodes)
}

/// Pixel variants of 2.2.
pub fn pixel_variants() -> Vec<Node> {
    let mut out = vec![];
    let frag_sets: Vec<(&'static str, Vec<Vec<u8>>)> = vec![
        ("nofrag", vec![]),
        ("one-even", vec![vec![1, 2, 3, 4]]),
        ("one-odd", vec![vec![1, 2, 3]]),
        ("two", vec![vec![1, 2], vec![3, 4, 5, 6]]),
        ("empty-then-data", vec![vec![], vec![1, 2]]),
    ];
    for (fs, frags) in &frag_sets {
        for (os, offs) in [("bot-empty", vec![]), ("bot-0", vec![0u32]), ("bot-0-n", vec![0u32, 10])] {
            let shape: &'static str = Box::leak(format!("{os}/{fs}").into_boxed_str());
            out.push(Node::Pix { vr: "OB", offsets: offs.clone(), frags: frags.clone(), shape });
        }
    }
    // (PS3.5 A.4: encapsulated pixel data always has VR OB, so there is no OW variant)
    out
}

pub const SQ_STD: (u16, u16) = (0x0008, 0x1140);
pub const SQ_STD2: (u16, u16) = (0x0008, 0x1115);
pub const SQ_AFTER_PIXEL: (u16, u16) = (0xFFFA, 0xFFFA);
pub const SQ_PRIVATE: (u16, u16) = (0x0009, 0x1080);

/// DS(1,0): every atom alone (plus creator when needed).
pub fn ds1() -> Vec<Vec<Node>> {
    atoms().into_iter().filter_map(|a| normalize(vec![Node::Prim(a)])).collect()
}

/// DS(2,0): all pairs of atoms with distinct tags.
pub fn ds2() -> Vec<Vec<Node>> {
    let a = atoms();
    let mut out = vec![];
    for i in 0..a.len() {
        for j in (i + 1)..a.len() {
            if a[i].tag == a[j].tag {
                continue;
            }
            if let Some(n) = normalize(vec![Node::Prim(a[i].clone()), Node::Prim(a[j].clone())]) {
                out.push(n);
            }
        }
    }
    out
}

/// item contents over reduced atoms with at most k atoms
fn item_contents(k: usize, ar: &[Atom]) -> Vec<Vec<Node>> {
    let mut out = vec![vec![]];
    if k >= 1 {
        for a in ar {
            if let Some(n) = normalize(vec![Node::Prim(a.clone())]) {
                out.push(n);
            }
        }
    }
    if k >= 2 {
        // pairs over a sub-selection to keep the space bounded
        let sel: Vec<&Atom> = ar.iter().step_by(5).collect();
        for i in 0..sel.len() {
            for j in (i + 1)..sel.len() {
                if sel[i].tag != sel[j].tag {
                    if let Some(n) = normalize(vec![Node::Prim(sel[i].clone()), Node::Prim(sel[j].clone())]) {
                        out.push(n);
                    }
                }
            }
        }
    }
    out
}

/// DS_r(k, 2): nested universes over reduced atoms: sequences with 0..2 items, one nesting level of
/// a second sequence, pixel variants, a sequence after pixel data, with 0..k-1 sibling atoms.
pub fn ds_nested(k: usize) -> Vec<Vec<Node>> {
    let ar = reduced_atoms();
    let mut out: Vec<Vec<Node>> = vec![];
    let contents1 = item_contents(1, &ar);
    let contents2 = item_contents(2, &ar);
    let mut seqs: Vec<Node> = vec![];
    for (tag, tclass) in [(SQ_STD, "std"), (SQ_PRIVATE, "private")] {
        // 0 items
        seqs.push(Node::Seq { tag, items: vec![], tclass });
        // 1 item
        for c in &contents2 {
            seqs.push(Node::Seq { tag, items: vec![c.clone()], tclass });
        }
        // 2 items
        for c1 in contents1.iter().step_by(3) {
            for c2 in contents1.iter().step_by(4) {
                seqs.push(Node::Seq { tag, items: vec![c1.clone(), c2.clone()], tclass });
            }
        }
        // nested: item holding an inner sequence (0/1/2 items) and optionally an atom after it
        for inner_items in [vec![], vec![vec![]], vec![vec![Node::Prim(ar[0].clone())]], vec![vec![Node::Prim(ar[11].clone())], vec![]]] {
            let inner = Node::Seq { tag: SQ_STD2, items: inner_items.clone(), tclass: "std" };
            seqs.push(Node::Seq { tag, items: vec![vec![inner.clone()]], tclass });
            let mut with_atom = vec![inner.clone(), Node::Prim(ar[3].clone())];
            with_atom.sort_by_key(|n| n.tag());
            seqs.push(Node::Seq { tag, items: vec![with_atom], tclass });
        }
    }
    // sequences alone and with one following / preceding atom
    for s in &seqs {
        if let Some(n) = normalize(vec![s.clone()]) {
            out.push(n);
        }
    }
    if k >= 2 {
        for s in seqs.iter().step_by(2) {
            for a in ar.iter().step_by(3) {
                if let Some(n) = normalize(vec![s.clone(), Node::Prim(a.clone())]) {
                    out.push(n);
                }
            }
        }
    }
    if k >= 3 {
        for s in seqs.iter().step_by(5) {
            for (i, a) in ar.iter().enumerate().step_by(4) {
                for b in ar.iter().skip(i + 1).step_by(5) {
                    if let Some(n) = normalize(vec![s.clone(), Node::Prim(a.clone()), Node::Prim(b.clone())]) {
                        out.push(n);
                    }
                }
            }
        }
    }
    // pixel variants alone, with a preceding atom, and with a sequence after pixel data
    let after = Node::Seq { tag: SQ_AFTER_PIXEL, items: vec![vec![Node::Prim(ar[0].clone())]], tclass: "std" };
    for p in pixel_variants() {
        out.push(vec![p.clone()]);
        out.push(normalize(vec![Node::Prim(ar[11].clone()), p.clone()]).unwrap());
        out.push(vec![p.clone(), after.clone()]);
        out.push(normalize(vec![seqs[3].clone(), p.clone(), after.clone()]).unwrap());
    }
    // depth-4 chains
    for leaf in [ar[0].clone(), ar[11].clone(), ar[18].clone()] {
        let mut node = Node::Prim(leaf);
        for (d, tag) in [(0x0040u16, 0xA730u16), (0x0040, 0xA730), SQ_STD2, SQ_STD].into_iter().enumerate() {
            let _ = d;
            node = Node::Seq { tag, items: vec![vec![node]], tclass: "std" };
        }
        out.push(vec![node]);
    }
    out
}

// ---------------------------------------------------------------------------------------------
// Builders
// ---------------------------------------------------------------------------------------------

pub fn to_element(n: &Node) -> InMemElement {
    match n {
        Node::Prim(a) => DataElement::new(Tag(a.tag.0, a.tag.1), vr_of_str(a.vr), Value::Primitive(a.value.clone())),
        Node::Seq { tag, items, .. } => {
            let objs: Vec<InMemDicomObject> = items.iter().map(|it| to_obj(it)).collect();
            DataElement::new(Tag(tag.0, tag.1), VR::SQ, Value::Sequence(DataSetSequence::new(objs, Length::UNDEFINED)))
        }
        Node::Pix { vr, offsets, frags, .. } => DataElement::new(
            Tag(0x7FE0, 0x0010),
            vr_of_str(vr),
            Value::PixelSequence(PixelFragmentSequence::new(offsets.clone(), frags.clone())),
        ),
    }
}

pub fn to_obj(nodes: &[Node]) -> InMemDicomObject {
    InMemDicomObject::from_element_iter(nodes.iter().map(to_element))
}

/// Reference tree as it appears ON THE WIRE. `explicit_mask`: bit i set = container i (in pre-order:
/// sequence, then its items) has a defined length. Text of the charset-dependent VRs is transcoded
/// from the atom's UTF-8 bytes into the Specific Character Set in effect (set by a preceding
/// (0008,0005) at top level, inherited by items) with a small independent encoder.
pub fn to_ref(nodes: &[Node], explicit_mask: u32) -> Vec<RElem> {
    let mut counter = 0u32;
    to_ref_inner(nodes, explicit_mask, &mut counter, &mut RefCs::Default, true)
}
/// Reference tree in canonical (in-memory) space: text stays UTF-8, as `canon(obj)` yields it.
pub fn to_ref_canon(nodes: &[Node], explicit_mask: u32) -> Vec<RElem> {
    let mut counter = 0u32;
    to_ref_inner(nodes, explicit_mask, &mut counter, &mut RefCs::Default, false)
}
pub fn count_containers(nodes: &[Node]) -> u32 {
    let mut c = 0;
    to_ref_inner(nodes, 0, &mut c, &mut RefCs::Default, false);
    c
}

#[derive(Clone, Copy, PartialEq, Eq, Debug)]
pub enum RefCs {
    Default,
    Latin1,
    Cyrillic,
    Utf8,
}

/// Independent text encoder for the three non-default sets the universes use.
pub fn ref_encode_text(cs: RefCs, utf8: &[u8]) -> Vec<u8> {
    let s = std::str::from_utf8(utf8).expect("atom text is UTF-8");
    match cs {
        RefCs::Default | RefCs::Utf8 => utf8.to_vec(),
        RefCs::Latin1 => s.chars().map(|c| u8::try_from(c as u32).expect("latin-1 repertoire")).collect(),
        RefCs::Cyrillic => s
            .chars()
            .map(|c| {
                let cp = c as u32;
                match cp {
                    0..=0xA0 => cp as u8,
                    0x0401..=0x040C | 0x040E..=0x044F => (cp - 0x0400 + 0xA0) as u8,
                    0x0451..=0x045C | 0x045E..=0x045F => (cp - 0x0450 + 0xF0) as u8,
                    _ => panic!("not in ISO 8859-5"),
                }
            })
            .collect(),
    }
}

fn charset_dependent(vr: &str) -> bool {
    matches!(vr, "LO" | "LT" | "PN" | "SH" | "ST" | "UC" | "UT")
}

fn to_ref_inner(nodes: &[Node], mask: u32, counter: &mut u32, cs: &mut RefCs, wire: bool) -> Vec<RElem> {
    nodes
        .iter()
        .map(|n| match n {
            Node::Prim(a) => {
                if a.tag == (0x0008, 0x0005) {
                    *cs = match a.le.as_slice() {
                        b"ISO_IR 100" => RefCs::Latin1,
                        b"ISO_IR 144" => RefCs::Cyrillic,
                        b"ISO_IR 192" => RefCs::Utf8,
                        _ => RefCs::Default,
                    };
                }
                let bytes = if wire && charset_dependent(a.vr) && !a.le.is_ascii() { ref_encode_text(*cs, &a.le) } else { a.le.clone() };
                RElem { tag: a.tag, vr: rds::vr(a.vr), val: RVal::Prim(bytes) }
            }
            Node::Seq { tag, items, .. } => {
                let explicit = mask & (1 << *counter) != 0;
                *counter += 1;
                let items = items
                    .iter()
                    .map(|it| {
                        let e = mask & (1 << *counter) != 0;
                        *counter += 1;
                        let mut inner_cs = *cs;
                        RItem { elems: to_ref_inner(it, mask, counter, &mut inner_cs, wire), explicit: e }
                    })
                    .collect();
                RElem { tag: *tag, vr: *b"SQ", val: RVal::Seq { items, explicit } }
            }
            Node::Pix { vr, offsets, frags, .. } => RElem {
                tag: (0x7FE0, 0x0010),
                vr: rds::vr(vr),
                val: RVal::Pix { offsets: offsets.clone(), frags: frags.clone() },
            },
        })
        .collect()
}

/// Data sets with a Specific Character Set and non-ASCII text: every charset-dependent VR x
/// {1, 2, 3 non-ASCII characters, mixed, multi-valued} so that the encoded length parity differs
/// from the UTF-8 length parity in both directions; plus one nested item inheriting the set.
pub fn ds_charset() -> Vec<Vec<Node>> {
    let mut out = vec![];
    let sets: [(&'static str, [&'static str; 6]); 3] = [
        ("ISO_IR 100", ["\u{fc}", "\u{fc}b", "\u{fc}\u{e9}", "M\u{fc}ller^Hans", "\u{fc}\u{e9}\u{e0}", "ab\u{e7}d"]),
        ("ISO_IR 192", ["\u{fc}", "\u{fc}b", "\u{20ac}", "M\u{fc}ller^Hans", "\u{1F600}x", "ab\u{e7}d"]),
        ("ISO_IR 144", ["\u{416}", "\u{416}b", "\u{416}\u{44f}", "\u{41c}\u{44e}^Hans", "\u{401}\u{451}\u{45f}", "ab\u{436}d"]),
    ];
    for (term, texts) in sets {
        let cs_atom = Atom { tag: (0x0008, 0x0005), vr: "CS", value: PrimitiveValue::Str(term.into()), le: term.as_bytes().to_vec(), shape: "charset-term", tclass: "charset" };
        for vr in ["LO", "SH", "PN", "LT", "ST", "UT", "UC"] {
            let multi_ok = matches!(vr, "LO" | "SH" | "PN" | "UC");
            for t in texts {
                let a = Atom { tag: std_tag(vr), vr, value: PrimitiveValue::Str(t.to_string()), le: t.as_bytes().to_vec(), shape: "non-ascii", tclass: "charset-text" };
                out.push(normalize(vec![Node::Prim(cs_atom.clone()), Node::Prim(a)]).unwrap());
            }
            if multi_ok {
                for pair in [[texts[0], "ab"], [texts[2], texts[1]]] {
                    let a = Atom { tag: std_tag(vr), vr, value: strs(&pair), le: pair.join("\\").into_bytes(), shape: "non-ascii-multi", tclass: "charset-text" };
                    out.push(normalize(vec![Node::Prim(cs_atom.clone()), Node::Prim(a)]).unwrap());
                }
            }
        }
        // restricted VR next to it stays default repertoire; text inside an item inherits the set
        let inner = Atom { tag: std_tag("LO"), vr: "LO", value: PrimitiveValue::Str(texts[0].to_string()), le: texts[0].as_bytes().to_vec(), shape: "non-ascii", tclass: "charset-text" };
        let da = Atom { tag: std_tag("DA"), vr: "DA", value: PrimitiveValue::Str("20200101".into()), le: b"20200101".to_vec(), shape: "even", tclass: "std" };
        out.push(normalize(vec![Node::Prim(cs_atom.clone()), Node::Prim(da), Node::Seq { tag: SQ_STD, items: vec![vec![Node::Prim(inner)]], tclass: "std" }]).unwrap());
    }
    out
}

// ---------------------------------------------------------------------------------------------
// Canonical form of a dicom-rs object and comparison
// ---------------------------------------------------------------------------------------------

/// LE bytes of a primitive value by an independent conversion (does not call `to_bytes`).
pub fn prim_le_bytes(v: &PrimitiveValue) -> Vec<u8> {
    use PrimitiveValue as P;
    match v {
        P::Empty => vec![],
        P::Str(s) => s.as_bytes().to_vec(),
        P::Strs(s) => s.join("\\").into_bytes(),
        P::U8(b) => b.to_vec(),
        P::U16(x) => x.iter().flat_map(|v| v.to_le_bytes()).collect(),
        P::I16(x) => x.iter().flat_map(|v| v.to_le_bytes()).collect(),
        P::U32(x) => x.iter().flat_map(|v| v.to_le_bytes()).collect(),
        P::I32(x) => x.iter().flat_map(|v| v.to_le_bytes()).collect(),
        P::U64(x) => x.iter().flat_map(|v| v.to_le_bytes()).collect(),
        P::I64(x) => x.iter().flat_map(|v| v.to_le_bytes()).collect(),
        P::F32(x) => x.iter().flat_map(|v| v.to_le_bytes()).collect(),
        P::F64(x) => x.iter().flat_map(|v| v.to_le_bytes()).collect(),
        P::Tags(t) => t.iter().flat_map(|t| [t.0.to_le_bytes(), t.1.to_le_bytes()].concat()).collect(),
        P::Date(d) => d.iter().map(|d| d.to_encoded()).collect::<Vec<_>>().join("\\").into_bytes(),
        P::Time(d) => d.iter().map(|d| d.to_encoded()).collect::<Vec<_>>().join("\\").into_bytes(),
        P::DateTime(d) => d.iter().map(|d| d.to_encoded()).collect::<Vec<_>>().join("\\").into_bytes(),
    }
}

/// IS/DS held as binary numbers are textual numbers: they compare by their decimal text.
pub fn prim_canon_bytes(vr: VR, v: &PrimitiveValue) -> Vec<u8> {
    use PrimitiveValue as P;
    if matches!(vr, VR::IS | VR::DS) {
        let txt: Option<Vec<String>> = match v {
            P::U8(x) => Some(x.iter().map(|v| v.to_string()).collect()),
            P::U16(x) => Some(x.iter().map(|v| v.to_string()).collect()),
            P::I16(x) => Some(x.iter().map(|v| v.to_string()).collect()),
            P::U32(x) => Some(x.iter().map(|v| v.to_string()).collect()),
            P::I32(x) => Some(x.iter().map(|v| v.to_string()).collect()),
            P::U64(x) => Some(x.iter().map(|v| v.to_string()).collect()),
            P::I64(x) => Some(x.iter().map(|v| v.to_string()).collect()),
            P::F32(x) => Some(x.iter().map(|v| v.to_string()).collect()),
            P::F64(x) => Some(x.iter().map(|v| v.to_string()).collect()),
            _ => None,
        };
        if let Some(t) = txt {
            return t.join("\\").into_bytes();
        }
    }
    prim_le_bytes(v)
}

/// Canonical form of an object: reference tree with `explicit` flags taken from recorded lengths.
pub fn canon(obj: &InMemDicomObject) -> Vec<RElem> {
    obj.iter().map(canon_elem).collect()
}
pub fn canon_elem(e: &InMemElement) -> RElem {
    let tag = (e.tag().0, e.tag().1);
    let vr = vr_code(e.vr());
    let val = match e.value() {
        Value::Primitive(p) => RVal::Prim(prim_canon_bytes(e.vr(), p)),
        Value::Sequence(s) => RVal::Seq {
            items: s
                .items()
                .iter()
                .map(|o| RItem { elems: canon(o), explicit: o.length().is_defined() })
                .collect(),
            explicit: s.length().is_defined(),
        },
        Value::PixelSequence(p) => RVal::Pix {
            offsets: p.offset_table().to_vec(),
            frags: p.fragments().iter().map(|f| f.to_vec()).collect(),
        },
    };
    RElem { tag, vr, val }
}

#[derive(Clone, Copy, PartialEq, Eq, Debug)]
pub enum VrMode {
    /// explicit VR: VR must be equal
    Explicit,
    /// implicit VR: VR of a tag known to the dictionary is the dictionary VR, else UN
    Implicit,
}

fn is_binary_swappable(vr: [u8; 2]) -> bool {
    rds::swap_width(vr) > 1
}

/// Compare the object read back (`got`) with the expected reference tree.
/// Normalisations accepted: one trailing padding byte (VR-specific) on odd-length values;
/// in Implicit VR the dictionary VR (UN for unknown tags, values as bytes).
/// Recorded lengths are not compared here.
pub fn compare(expected: &[RElem], got: &[RElem], mode: VrMode, dict: &Dict, signed_ctx: bool) -> Result<(), String> {
    if expected.len() != got.len() {
        return Err(format!(
            "element count differs: expected {:?} got {:?}",
            expected.iter().map(|e| e.tag).collect::<Vec<_>>(),
            got.iter().map(|e| e.tag).collect::<Vec<_>>()
        ));
    }
    let mut signed = signed_ctx;
    for (e, g) in expected.iter().zip(got) {
        if e.tag != g.tag {
            return Err(format!("tag order differs: expected {:04X?} got {:04X?}", e.tag, g.tag));
        }
        if e.tag == (0x0028, 0x0103) {
            if let RVal::Prim(b) = &e.val {
                signed = b.first() == Some(&1);
            }
        }
        let want_vr: Vec<[u8; 2]> = match mode {
            VrMode::Explicit => vec![e.vr],
            VrMode::Implicit => match &e.val {
                RVal::Seq { .. } => vec![*b"SQ"],
                _ => dict.implicit_vrs(e.tag, signed),
            },
        };
        if !want_vr.contains(&g.vr) {
            return Err(format!(
                "VR of {:04X?}: expected one of {:?} got {}",
                e.tag,
                want_vr.iter().map(|v| rds::vr_str(*v)).collect::<Vec<_>>(),
                rds::vr_str(g.vr)
            ));
        }
        match (&e.val, &g.val) {
            (RVal::Prim(eb), RVal::Prim(gb)) => {
                let mut ok = eb == gb;
                // text in a non-default character set: the parity of the encoded length can differ from
                // the parity of the UTF-8 length, so a kept padding space is accepted for either parity there
                let non_ascii_text = !eb.is_ascii() && rds::pad_byte(e.vr) == b' ';
                if !ok && (eb.len() % 2 == 1 || non_ascii_text) && gb.len() == eb.len() + 1 && gb[..eb.len()] == eb[..] {
                    // padding kept by the reader: must be the pad byte of the VR it was written with
                    ok = gb[eb.len()] == rds::pad_byte(e.vr);
                }
                if !ok {
                    return Err(format!("value of {:04X?} ({}): expected {:02X?} got {:02X?}", e.tag, rds::vr_str(e.vr), eb, gb));
                }
                let _ = is_binary_swappable;
            }
            (RVal::Seq { items: ei, .. }, RVal::Seq { items: gi, .. }) => {
                if ei.len() != gi.len() {
                    return Err(format!("item count of {:04X?}: expected {} got {}", e.tag, ei.len(), gi.len()));
                }
                for (i, (a, b)) in ei.iter().zip(gi).enumerate() {
                    compare(&a.elems, &b.elems, mode, dict, signed).map_err(|m| format!("{:04X?}[{i}]: {m}", e.tag))?;
                }
            }
            (RVal::Pix { offsets: eo, frags: ef }, RVal::Pix { offsets: go, frags: gf }) => {
                if eo != go {
                    return Err(format!("offset table: expected {eo:?} got {go:?}"));
                }
                if ef.len() != gf.len() {
                    return Err(format!("fragment count: expected {} got {}", ef.len(), gf.len()));
                }
                for (a, b) in ef.iter().zip(gf) {
                    let ok = a == b || (a.len() % 2 == 1 && b.len() == a.len() + 1 && b[..a.len()] == a[..] && b[a.len()] == 0);
                    if !ok {
                        return Err(format!("fragment: expected {a:02X?} got {b:02X?}"));
                    }
                }
            }
            (a, b) => {
                return Err(format!("value kind of {:04X?}: expected {} got {}", e.tag, kind(a), kind(b)));
            }
        }
    }
    Ok(())
}

fn kind(v: &RVal) -> &'static str {
    match v {
        RVal::Prim(_) => "primitive",
        RVal::Seq { .. } => "sequence",
        RVal::Pix { .. } => "pixel-sequence",
    }
}

/// Compare a strictly parsed *wire* tree with the expected tree: values must carry exactly the
/// VR-specific padding; container length modes must equal `expected`'s flags when `check_modes`.
pub fn compare_wire(expected: &[RElem], wire: &[RElem], check_modes: bool) -> Result<(), String> {
    if expected.len() != wire.len() {
        return Err(format!("element count differs: expected {} got {}", expected.len(), wire.len()));
    }
    for (e, w) in expected.iter().zip(wire) {
        if e.tag != w.tag {
            return Err(format!("tag: expected {:04X?} got {:04X?}", e.tag, w.tag));
        }
        match (&e.val, &w.val) {
            (RVal::Prim(eb), RVal::Prim(wb)) => {
                let mut want = eb.clone();
                if want.len() % 2 == 1 {
                    want.push(rds::pad_byte(e.vr));
                }
                if &want != wb {
                    return Err(format!("wire value of {:04X?} ({}): expected {:02X?} got {:02X?}", e.tag, rds::vr_str(e.vr), want, wb));
                }
            }
            (RVal::Seq { items: ei, explicit: ee }, RVal::Seq { items: wi, explicit: we }) => {
                if check_modes && ee != we {
                    return Err(format!("sequence {:04X?} length mode: expected explicit={ee} got {we}", e.tag));
                }
                if ei.len() != wi.len() {
                    return Err(format!("item count of {:04X?}", e.tag));
                }
                for (a, b) in ei.iter().zip(wi) {
                    if check_modes && a.explicit != b.explicit {
                        return Err(format!("item of {:04X?} length mode: expected explicit={} got {}", e.tag, a.explicit, b.explicit));
                    }
                    compare_wire(&a.elems, &b.elems, check_modes)?;
                }
            }
            (RVal::Pix { offsets: eo, frags: ef }, RVal::Pix { offsets: wo, frags: wf }) => {
                if eo != wo {
                    return Err(format!("offset table: expected {eo:?} got {wo:?}"));
                }
                let want: Vec<Vec<u8>> = ef
                    .iter()
                    .map(|f| {
                        let mut f = f.clone();
                        if f.len() % 2 == 1 {
                            f.push(0);
                        }
                        f
                    })
                    .collect();
                if &want != wf {
                    return Err(format!("fragments: expected {want:02X?} got {wf:02X?}"));
                }
            }
            (a, b) => return Err(format!("wire kind of {:04X?}: expected {} got {}", e.tag, kind(a), kind(b))),
        }
    }
    Ok(())
}

// ---------------------------------------------------------------------------------------------
// Write / read wrappers
// ---------------------------------------------------------------------------------------------

#[derive(Clone, Copy, Debug, PartialEq, Eq)]
pub enum WriteMode {
    /// write_dataset_with_ts (default options)
    Default,
    /// write_dataset_with_ts_options(SetUndefined)
    SetUndefined,
    /// write_dataset_with_ts_options(NoChange)
    NoChange,
}
pub const WRITE_MODES: [WriteMode; 3] = [WriteMode::Default, WriteMode::SetUndefined, WriteMode::NoChange];

pub fn write_ds(obj: &InMemDicomObject, ts_uid: &str, mode: WriteMode) -> Result<Vec<u8>, String> {
    let ts = ts_by_uid(ts_uid);
    let mut out = vec![];
    let r = match mode {
        WriteMode::Default => obj.write_dataset_with_ts(&mut out, ts),
        WriteMode::SetUndefined => obj.write_dataset_with_ts_options(
            &mut out,
            ts,
            DataSetWriterOptions::default().explicit_length_sq_item_strategy(ExplicitLengthSqItemStrategy::SetUndefined),
        ),
        WriteMode::NoChange => obj.write_dataset_with_ts_options(
            &mut out,
            ts,
            DataSetWriterOptions::default().explicit_length_sq_item_strategy(ExplicitLengthSqItemStrategy::NoChange),
        ),
    };
    r.map(|_| out).map_err(|e| format!("{e:?}").chars().take(300).collect())
}

pub fn read_ds(bytes: &[u8], ts_uid: &str) -> Result<InMemDicomObject, String> {
    InMemDicomObject::read_dataset_with_ts(bytes, ts_by_uid(ts_uid)).map_err(|e| format!("{e:?}").chars().take(300).collect())
}

/// VR oracle for the reference parser in Implicit VR, built from the expected tree itself
/// (the check knows what it wrote) with the dictionary as fallback.
pub fn vr_oracle<'a>(expected: &[RElem], dict: &'a Dict) -> impl Fn((u16, u16)) -> Option<[u8; 2]> + 'a {
    let mut map: HashMap<(u16, u16), [u8; 2]> = HashMap::new();
    fn walk(e: &[RElem], map: &mut HashMap<(u16, u16), [u8; 2]>) {
        for x in e {
            map.insert(x.tag, x.vr);
            if let RVal::Seq { items, .. } = &x.val {
                for it in items {
                    walk(&it.elems, map);
                }
            }
        }
    }
    walk(expected, &mut map);
    move |t| map.get(&t).copied().or_else(|| dict.implicit_vrs(t, false).first().copied())
}

pub fn hex(b: &[u8]) -> String {
    b.iter().map(|x| format!("{x:02X}")).collect::<Vec<_>>().join("")
}

pub mod rt;
pub mod counts;
