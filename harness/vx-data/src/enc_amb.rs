//! Shared by c03.rs and c08.rs (pulled in with #[path]): the *independent* statement of which
//! explicit VR codes are compatible with an attribute's dictionary entry, computed from the
//! extracted dictionary table (vx_data::Dict), never from dicom-rs.
#![allow(dead_code)]

use vx_data::dict::{Dict, Lookup};

pub fn is_vr_code(c: [u8; 2]) -> bool {
    vx_ref::ds::VRS.iter().any(|s| s.as_bytes() == c)
}

/// VR class of the dictionary entry of a tag: an exact VR, one of `xs ox px lt`, or None when the
/// dictionary has no entry for the tag (PS3.6 / generated table; private creators are LO and
/// group lengths UL by PS3.5 7.2 / 7.8.1).
pub fn entry_vr(dict: &Dict, tag: (u16, u16)) -> Option<String> {
    match dict.lookup(tag) {
        Lookup::Entry(e) => Some(e.vr.clone()),
        Lookup::PrivateCreator => Some("LO".into()),
        Lookup::GroupLength => Some("UL".into()),
        Lookup::None => None,
    }
}

/// May a conforming explicit-VR writer put `code` on the wire for an attribute whose dictionary VR
/// class is `entry`?  PS3.6 notation: xs = "US or SS", ox/px = "OB or OW", lt = "US or OW".
/// With no dictionary entry nothing contradicts any code.
pub fn compatible(entry: Option<&str>, code: [u8; 2]) -> bool {
    match entry {
        None => true,
        Some("xs") => &code == b"US" || &code == b"SS",
        Some("ox") | Some("px") => &code == b"OB" || &code == b"OW",
        Some("lt") => &code == b"US" || &code == b"OW",
        Some(v) => v.as_bytes() == code,
    }
}

/// The ambiguity clause of C08 for a stream whose first non-delimiter element has tag `tag` and
/// whose two bytes after that tag are `after_tag`:
/// * implicit stream: ambiguous iff those bytes (the low half of the length) spell a VR code
///   compatible with the entry;
/// * explicit stream: undecidable iff the (valid) explicit VR is *not* compatible with the entry
///   (legal for a writer that knows better than the dictionary, but the probe cannot tell it from an
///   implicit length).
pub fn implicit_is_ambiguous(dict: &Dict, tag: (u16, u16), after_tag: [u8; 2]) -> bool {
    is_vr_code(after_tag) && compatible(entry_vr(dict, tag).as_deref(), after_tag)
}
pub fn explicit_is_undecidable(dict: &Dict, tag: (u16, u16), vr: [u8; 2]) -> bool {
    !is_vr_code(vr) || !compatible(entry_vr(dict, tag).as_deref(), vr)
}

/// Class of the two bytes after the first tag with respect to the dictionary entry of that tag.
pub fn probe_class(dict: &Dict, tag: (u16, u16), after_tag: [u8; 2]) -> &'static str {
    if !is_vr_code(after_tag) {
        return "not-a-vr-code";
    }
    match entry_vr(dict, tag) {
        None => "vr-code-no-entry",
        Some(e) if compatible(Some(&e), after_tag) => "vr-code-compatible",
        Some(_) => "vr-code-incompatible",
    }
}
