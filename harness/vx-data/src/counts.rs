//! C04 second half: every byte count reported by the encoding layer equals the bytes written.
use crate::rt::CountingWrite;
use crate::*;
use dicom_core::header::DataElementHeader;
use dicom_encoding::encode::BasicEncode;
use dicom_encoding::text::SpecificCharacterSet;
use dicom_parser::stateful::encode::StatefulEncoder;
use vx_kit::{guard, json, Check};

pub fn run(check: &Check) {
    let mut l = check.local();
    let all = atoms();
    for (ai, a) in all.iter().enumerate() {
        for (ti, uid) in TS4.iter().enumerate().take(3) {
            let case_id = format!("count/atom{ai}/ts{ti}");
            if !l.want(&case_id) {
                continue;
            }
            l.eval();
            l.nontrivial(&case_id);
            let ts = ts_by_uid(uid);
            let sink = CountingWrite::default();
            let enc = ts.encoder_for::<CountingWrite>().expect("encoder");
            let mut se = StatefulEncoder::new(sink.clone(), enc, SpecificCharacterSet::default());
            let hdr = DataElementHeader::new(Tag(a.tag.0, a.tag.1), vr_of_str(a.vr), Length(0));
            let class = json!({"stage": "count", "vr": a.vr, "shape": a.shape, "ts": uid});
            let r = guard(|| se.encode_primitive_element(&hdr, &a.value).map_err(|e| format!("{e:?}")));
            match r {
                Err(p) => l.fail(&case_id, json!({"stage": "count", "kind": "panic", "vr": a.vr, "ts": uid}), json!({"atom": format!("{a:?}"), "message": p})),
                Ok(Err(e)) => l.fail(&case_id, json!({"stage": "count", "kind": "err", "vr": a.vr, "ts": uid}), json!({"atom": format!("{a:?}"), "message": e})),
                Ok(Ok(())) => {
                    let reported = se.bytes_written();
                    let real = sink.0.lock().unwrap().len() as u64;
                    // expected layout by the reference encoder
                    let want = vx_ref::ds::encode_items(ref_ts(ti), &[RElem { tag: a.tag, vr: rds::vr(a.vr), val: RVal::Prim(a.le.clone()) }]);
                    if reported != real {
                        l.outcome("count-wrong");
                        l.fail(&case_id, class_with_kind(&class, "bytes_written"), json!({"atom": format!("{a:?}"), "reported": reported, "real": real}));
                    } else if want != *sink.0.lock().unwrap() {
                        l.outcome("bytes-wrong");
                        l.fail(&case_id, class_with_kind(&class, "element-bytes"), json!({"atom": format!("{a:?}"), "expected": hex(&want), "got": hex(&sink.0.lock().unwrap())}));
                    } else {
                        l.outcome_with("count-exact", || json!({"case": case_id, "reported": reported}));
                    }
                    // calculate_byte_len: the encoded value length, with or without the padding byte (its doc says even, some variants report unpadded)
                    let cbl = a.value.calculate_byte_len();
                    let enc_len = a.le.len();
                    if cbl != enc_len && cbl != enc_len + enc_len % 2 {
                        // DS/IS given as binary numbers are encoded as text by the stateful encoder; calculate_byte_len describes the binary form
                        let binary_as_text = (a.vr == "DS" || a.vr == "IS") && a.shape.starts_with("num");
                        if !binary_as_text {
                            l.fail(&case_id, class_with_kind(&class, "calculate_byte_len"), json!({"atom": format!("{a:?}"), "calculate_byte_len": cbl, "encoded_len": enc_len}));
                        }
                    }
                }
            }
            // BasicEncode::encode_primitive return value
            let case2 = format!("basic/atom{ai}/ts{ti}");
            l.eval();
            l.nontrivial(&case2);
            let be = if ti == 2 {
                dicom_encoding::encode::basic::BasicEncoder::BE(dicom_encoding::encode::basic::BigEndianBasicEncoder)
            } else {
                dicom_encoding::encode::basic::BasicEncoder::LE(dicom_encoding::encode::basic::LittleEndianBasicEncoder)
            };
            let mut out = vec![];
            match guard(|| be.encode_primitive(&mut out, &a.value).map_err(|e| format!("{e:?}"))) {
                Ok(Ok(n)) => {
                    if n != out.len() {
                        l.outcome("basic-count-wrong");
                        l.fail(&case2, json!({"stage": "count", "kind": "encode_primitive-return", "vr": a.vr, "shape": a.shape, "ts": uid}), json!({"atom": format!("{a:?}"), "returned": n, "written": out.len()}));
                    } else {
                        l.outcome("basic-count-exact");
                    }
                }
                Ok(Err(e)) => l.fail(&case2, json!({"stage": "count", "kind": "err", "vr": a.vr, "ts": uid}), json!({"message": e})),
                Err(p) => l.fail(&case2, json!({"stage": "count", "kind": "panic", "vr": a.vr, "ts": uid}), json!({"message": p})),
            }
        }
    }
    // headers, item headers, offset table, raw bytes: bytes_written accounting
    for (ti, uid) in TS4.iter().enumerate().take(3) {
        let ts = ts_by_uid(uid);
        let case_id = format!("count/headers/ts{ti}");
        if !l.want(&case_id) {
            continue;
        }
        l.eval();
        l.nontrivial(&case_id);
        let sink = CountingWrite::default();
        let enc = ts.encoder_for::<CountingWrite>().expect("encoder");
        let mut se = StatefulEncoder::new(sink.clone(), enc, SpecificCharacterSet::default());
        let mut steps: Vec<(String, u64, u64)> = vec![];
        let r = guard(|| {
            let mut snap = |name: &str, se: &StatefulEncoder<CountingWrite, _>, sink: &CountingWrite| {
                steps.push((name.to_string(), se.bytes_written(), sink.0.lock().unwrap().len() as u64));
            };
            se.encode_element_header(DataElementHeader::new(Tag(0x0008, 0x1140), VR::SQ, Length::UNDEFINED)).unwrap();
            snap("sq-header", &se, &sink);
            se.encode_item_header(0xFFFF_FFFF).unwrap();
            snap("item-header", &se, &sink);
            se.encode_element_header(DataElementHeader::new(Tag(0x0008, 0x0018), VR::UI, Length(4))).unwrap();
            snap("short-header", &se, &sink);
            se.write_bytes(b"1.2").unwrap();
            snap("write_bytes-odd", &se, &sink);
            se.encode_item_delimiter().unwrap();
            snap("item-delim", &se, &sink);
            se.encode_sequence_delimiter().unwrap();
            snap("seq-delim", &se, &sink);
            se.encode_element_header(DataElementHeader::new(Tag(0x7FE0, 0x0010), VR::OB, Length::UNDEFINED)).unwrap();
            snap("pix-header", &se, &sink);
            se.encode_item_header(8).unwrap();
            se.encode_offset_table(&[0, 0x01020304]).unwrap();
            snap("offset-table", &se, &sink);
            se.write_raw_bytes(&[1, 2, 3]).unwrap();
            snap("write_raw_bytes", &se, &sink);
        });
        if let Err(p) = r {
            l.fail(&case_id, json!({"stage": "count", "kind": "panic", "ts": uid}), json!({"message": p}));
            continue;
        }
        for (name, rep, real) in &steps {
            if rep != real {
                l.outcome("count-wrong");
                l.fail(&case_id, json!({"stage": "count", "kind": "bytes_written", "step": name, "ts": uid}), json!({"steps": format!("{steps:?}")}));
                break;
            }
        }
        l.outcome("header-counts-checked");
    }
}

fn class_with_kind(c: &serde_json::Value, kind: &str) -> serde_json::Value {
    let mut m = c.as_object().unwrap().clone();
    m.insert("kind".into(), json!(kind));
    serde_json::Value::Object(m)
}
