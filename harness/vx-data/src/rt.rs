//! Write/read round trip (C01) and structural validity of the output (C04) over the DS universes.

use crate::*;
use std::io::Write;
use std::sync::{Arc, Mutex};
use vx_kit::{guard, json, Check, Local};

#[derive(Clone, Copy, PartialEq, Eq)]
pub enum Which {
    C01,
    C04,
}

pub fn universe(check: &Check) -> Vec<Vec<Node>> {
    let mut u = ds1();
    u.extend(ds_charset());
    u.extend(ds_nested(2));
    if check.thorough() {
        u.extend(ds2());
        u.extend(ds_nested(3));
    }
    u
}

fn uniq_join(mut v: Vec<&str>) -> String {
    v.sort();
    v.dedup();
    v.join("+")
}

pub fn describe(nodes: &[Node]) -> serde_json::Value {
    fn walk<'a>(n: &'a [Node], vrs: &mut Vec<&'a str>, tcl: &mut Vec<&'a str>, shapes: &mut Vec<&'a str>, pix: &mut String, depth: usize, maxd: &mut usize, seq_before_pix: &mut bool, after_pix: &mut bool) {
        *maxd = (*maxd).max(depth);
        for x in n {
            match x {
                Node::Prim(a) => {
                    vrs.push(a.vr);
                    tcl.push(a.tclass);
                    shapes.push(a.shape);
                }
                Node::Seq { items, tclass, tag, .. } => {
                    vrs.push("SQ");
                    tcl.push(if *tclass == "private" { "private-sq" } else { "std-sq" });
                    if !pix.is_empty() && depth == 0 {
                        *after_pix = true;
                    }
                    let _ = (tag, &seq_before_pix);
                    if items.is_empty() {
                        shapes.push("sq-0-items");
                    }
                    for it in items {
                        if it.is_empty() {
                            shapes.push("empty-item");
                        }
                        walk(it, vrs, tcl, shapes, pix, depth + 1, maxd, seq_before_pix, after_pix);
                    }
                }
                Node::Pix { shape, .. } => {
                    *pix = shape.to_string();
                }
            }
        }
    }
    let (mut vrs, mut tcl, mut shapes, mut pix, mut maxd, mut sbp, mut ap) = (vec![], vec![], vec![], String::new(), 0, false, false);
    walk(nodes, &mut vrs, &mut tcl, &mut shapes, &mut pix, 0, &mut maxd, &mut sbp, &mut ap);
    json!({
        "vrs": uniq_join(vrs), "tclasses": uniq_join(tcl), "shapes": uniq_join(shapes),
        "pix": if pix.is_empty() { "-".to_string() } else { pix.clone() },
        "pix_frags": if pix.is_empty() { "-".to_string() } else { pix.rsplit('/').next().unwrap().to_string() },
        "depth": maxd, "seq_after_pixel": ap,
    })
}

fn class_with(base: &serde_json::Value, extra: serde_json::Value) -> serde_json::Value {
    let mut m = base.as_object().unwrap().clone();
    for (k, v) in extra.as_object().unwrap() {
        m.insert(k.clone(), v.clone());
    }
    serde_json::Value::Object(m)
}

/// A `Write` that counts the bytes that reach it.
#[derive(Clone, Default)]
pub struct CountingWrite(pub Arc<Mutex<Vec<u8>>>);
impl Write for CountingWrite {
    fn write(&mut self, b: &[u8]) -> std::io::Result<usize> {
        self.0.lock().unwrap().extend_from_slice(b);
        Ok(b.len())
    }
    fn flush(&mut self) -> std::io::Result<()> {
        Ok(())
    }
}

/// Run one data set through every TS4 x write mode; C01 compares read-back, C04 parses the output.
pub fn run_api_case(which: Which, l: &mut Local, dict: &Dict, idx: usize, nodes: &[Node]) {
    let desc = describe(nodes);
    let expected = to_ref_canon(nodes, 0);
    let expected_wire = to_ref(nodes, 0);
    let obj = to_obj(nodes);
    if let Err(m) = compare(&expected, &canon(&obj), VrMode::Explicit, dict, false) {
        l.check.machinery_error(&format!("harness: canon(to_obj) != to_ref for ds {idx}: {m}"));
        return;
    }
    for (ti, uid) in TS4.iter().enumerate() {
        for mode in WRITE_MODES {
            let case_id = format!("api/ds{idx}/ts{ti}/{mode:?}");
            if !l.want(&case_id) {
                continue;
            }
            l.eval();
            l.nontrivial(&case_id);
            let base = class_with(&desc, json!({"ts": uid, "mode": format!("{mode:?}"), "recorded": false}));
            let detail = |m: String| json!({"dataset": labels(nodes), "message": m});
            let bytes = match guard(|| write_ds(&obj, uid, mode)) {
                Err(p) => {
                    l.outcome("write-panic");
                    l.fail(&case_id, class_with(&base, json!({"stage": "write", "kind": "panic"})), detail(p));
                    continue;
                }
                Ok(Err(e)) => {
                    l.outcome("write-err");
                    l.fail(&case_id, class_with(&base, json!({"stage": "write", "kind": "err"})), detail(e));
                    continue;
                }
                Ok(Ok(b)) => b,
            };
            match which {
                Which::C01 => check_readback(l, &case_id, &base, dict, ti, &bytes, &expected, nodes),
                Which::C04 => check_wire(l, &case_id, &base, dict, ti, &bytes, &expected_wire, false, nodes),
            }
        }
    }
}

fn check_readback(l: &mut Local, case_id: &str, base: &serde_json::Value, dict: &Dict, ti: usize, bytes: &[u8], expected: &[RElem], nodes: &[Node]) {
    let uid = TS4[ti];
    let detail = |m: String| json!({"dataset": labels(nodes), "written": hex(&bytes[..bytes.len().min(256)]), "message": m});
    let back = match guard(|| read_ds(bytes, uid)) {
        Err(p) => {
            l.outcome("read-panic");
            l.fail(case_id, class_with(base, json!({"stage": "read", "kind": "panic"})), detail(p));
            return;
        }
        Ok(Err(e)) => {
            l.outcome("read-err");
            l.fail(case_id, class_with(base, json!({"stage": "read", "kind": "err"})), detail(e));
            return;
        }
        Ok(Ok(o)) => o,
    };
    let mode = if ti == 0 { VrMode::Implicit } else { VrMode::Explicit };
    match compare(expected, &canon(&back), mode, dict, false) {
        Ok(()) => l.outcome_with("roundtrip-equal", || json!({"case": case_id, "dataset": labels(nodes)})),
        Err(m) => {
            l.outcome("roundtrip-differs");
            let kind = m.split(':').next().unwrap_or("").split(" of ").next().unwrap_or("").trim().to_string();
            l.fail(case_id, class_with(base, json!({"stage": "compare", "kind": "mismatch", "what": kind})), detail(m));
        }
    }
}

fn check_wire(l: &mut Local, case_id: &str, base: &serde_json::Value, dict: &Dict, ti: usize, bytes: &[u8], expected: &[RElem], check_modes: bool, nodes: &[Node]) {
    let detail = |m: String| json!({"dataset": labels(nodes), "written": hex(&bytes[..bytes.len().min(256)]), "message": m});
    let plain: Vec<u8> = if ti == 3 {
        match vx_ref::ds::inflate_raw(bytes) {
            Ok(p) => p,
            Err(e) => {
                l.outcome("inflate-err");
                l.fail(case_id, class_with(base, json!({"stage": "inflate", "kind": "invalid"})), detail(e));
                return;
            }
        }
    } else {
        bytes.to_vec()
    };
    let oracle = vr_oracle(expected, dict);
    match vx_ref::ds::parse(ref_ts(ti), &plain, &oracle) {
        Err(e) => {
            l.outcome("structurally-invalid");
            let what = e.msg.split(|c: char| c.is_ascii_digit()).next().unwrap_or("").trim().to_string();
            l.fail(case_id, class_with(base, json!({"stage": "parse", "kind": "invalid", "what": what})), detail(e.to_string()));
        }
        Ok(tree) => match compare_wire(expected, &tree, check_modes) {
            Ok(()) => l.outcome_with("valid-and-exact", || json!({"case": case_id, "dataset": labels(nodes), "bytes": hex(&plain[..plain.len().min(64)])})),
            Err(m) => {
                l.outcome("wire-differs");
                let what = m.split(" of ").next().unwrap_or("").split(':').next().unwrap_or("").to_string();
                l.fail(case_id, class_with(base, json!({"stage": "wire-compare", "kind": "mismatch", "what": what})), detail(m));
            }
        },
    }
}

/// Objects with recorded lengths: read every explicit/undefined shape of the reference encoding,
/// then write with NoChange and SetUndefined.
pub fn run_recorded_case(which: Which, l: &mut Local, dict: &Dict, idx: usize, nodes: &[Node]) {
    let nc = count_containers(nodes);
    if nc == 0 || nc > 5 {
        return;
    }
    let desc = describe(nodes);
    for mask in 1u32..(1 << nc) {
        for (ti, uid) in TS4.iter().enumerate().take(3) {
            // private sequence with defined length in implicit VR is an opaque UN value by design
            if ti == 0 && desc["tclasses"].as_str().unwrap().contains("private-sq") {
                l.outcome("skipped-implicit-private-sq-defined-length");
                continue;
            }
            let expected = to_ref_canon(nodes, mask);
            let expected_wire = to_ref(nodes, mask);
            let stream = vx_ref::ds::encode_items(ref_ts(ti), &expected_wire);
            for mode in [WriteMode::NoChange, WriteMode::SetUndefined, WriteMode::Default] {
                let case_id = format!("rec/ds{idx}/mask{mask}/ts{ti}/{mode:?}");
                if !l.want(&case_id) {
                    continue;
                }
                l.eval();
                l.nontrivial(&case_id);
                let base = class_with(&desc, json!({"ts": uid, "mode": format!("{mode:?}"), "recorded": true}));
                let detail = |m: String| json!({"dataset": labels(nodes), "mask": mask, "stream": hex(&stream[..stream.len().min(256)]), "message": m});
                let obj = match guard(|| read_ds(&stream, uid)) {
                    Ok(Ok(o)) => o,
                    Ok(Err(e)) => {
                        l.outcome("ref-read-err");
                        l.fail(&case_id, class_with(&base, json!({"stage": "read-ref", "kind": "err"})), detail(e));
                        continue;
                    }
                    Err(p) => {
                        l.outcome("ref-read-panic");
                        l.fail(&case_id, class_with(&base, json!({"stage": "read-ref", "kind": "panic"})), detail(p));
                        continue;
                    }
                };
                let bytes = match guard(|| write_ds(&obj, uid, mode)) {
                    Ok(Ok(b)) => b,
                    Ok(Err(e)) => {
                        l.outcome("write-err");
                        l.fail(&case_id, class_with(&base, json!({"stage": "write", "kind": "err"})), detail(e));
                        continue;
                    }
                    Err(p) => {
                        l.outcome("write-panic");
                        l.fail(&case_id, class_with(&base, json!({"stage": "write", "kind": "panic"})), detail(p));
                        continue;
                    }
                };
                match which {
                    Which::C01 => check_readback(l, &case_id, &base, dict, ti, &bytes, &expected, nodes),
                    Which::C04 => {
                        // validity only: which containers keep a defined length is C02's subject
                        check_wire(l, &case_id, &base, dict, ti, &bytes, &expected_wire, false, nodes)
                    }
                }
            }
        }
    }
}

/// File level: FileDicomObject::write_all then from_reader (C01) / independent file parse (C04).
pub fn run_file_case(which: Which, l: &mut Local, dict: &Dict, idx: usize, nodes: &[Node]) {
    use dicom_object::{FileMetaTableBuilder, OpenFileOptions};
    let desc = describe(nodes);
    let expected = to_ref_canon(nodes, 0);
    let expected_wire = to_ref(nodes, 0);
    for (ti, uid) in TS4.iter().enumerate() {
        let case_id = format!("file/ds{idx}/ts{ti}");
        if !l.want(&case_id) {
            continue;
        }
        l.eval();
        l.nontrivial(&case_id);
        let base = class_with(&desc, json!({"ts": uid, "mode": "write_all", "recorded": false}));
        let detail = |m: String| json!({"dataset": labels(nodes), "message": m});
        let obj = to_obj(nodes);
        let built = guard(|| {
            obj.with_meta(
                FileMetaTableBuilder::new()
                    .transfer_syntax(*uid)
                    .media_storage_sop_class_uid("1.2.840.10008.5.1.4.1.1.7")
                    .media_storage_sop_instance_uid("1.2.3.4"),
            )
            .map_err(|e| format!("{e:?}"))
        });
        let file = match built {
            Ok(Ok(f)) => f,
            Ok(Err(e)) => {
                // a data set whose SOP Instance UID attribute is not a plain string cannot get a meta table: not a file case
                l.outcome("with_meta-refused");
                let _ = e;
                continue;
            }
            Err(p) => {
                l.fail(&case_id, class_with(&base, json!({"stage": "with_meta", "kind": "panic"})), detail(p));
                continue;
            }
        };
        let mut bytes = vec![];
        match guard(|| file.write_all(&mut bytes).map_err(|e| format!("{e:?}").chars().take(300).collect::<String>())) {
            Ok(Ok(())) => {}
            Ok(Err(e)) => {
                l.outcome("write-err");
                l.fail(&case_id, class_with(&base, json!({"stage": "write", "kind": "err"})), detail(e));
                continue;
            }
            Err(p) => {
                l.outcome("write-panic");
                l.fail(&case_id, class_with(&base, json!({"stage": "write", "kind": "panic"})), detail(p));
                continue;
            }
        }
        match which {
            Which::C01 => {
                let back = guard(|| OpenFileOptions::new().from_reader(&bytes[..]).map_err(|e| format!("{e:?}").chars().take(300).collect::<String>()));
                match back {
                    Ok(Ok(f)) => {
                        let mode = if ti == 0 { VrMode::Implicit } else { VrMode::Explicit };
                        let ts_back = f.meta().transfer_syntax().trim_end_matches('\0').to_string();
                        if ts_back != *uid {
                            l.fail(&case_id, class_with(&base, json!({"stage": "compare", "kind": "mismatch", "what": "meta transfer syntax"})), detail(ts_back));
                            continue;
                        }
                        match compare(&expected, &canon(&f), mode, dict, false) {
                            Ok(()) => l.outcome("file-roundtrip-equal"),
                            Err(m) => {
                                l.outcome("file-roundtrip-differs");
                                l.fail(&case_id, class_with(&base, json!({"stage": "compare", "kind": "mismatch", "what": m.split(':').next().unwrap_or("")})), detail(m));
                            }
                        }
                    }
                    Ok(Err(e)) => {
                        l.outcome("read-err");
                        l.fail(&case_id, class_with(&base, json!({"stage": "read", "kind": "err"})), detail(e));
                    }
                    Err(p) => {
                        l.outcome("read-panic");
                        l.fail(&case_id, class_with(&base, json!({"stage": "read", "kind": "panic"})), detail(p));
                    }
                }
            }
            Which::C04 => match vx_ref::ds::parse_file_head(&bytes) {
                Err(e) => {
                    l.outcome("file-head-invalid");
                    l.fail(&case_id, class_with(&base, json!({"stage": "parse-meta", "kind": "invalid"})), detail(e.to_string()));
                }
                Ok(head) => {
                    if head.ts_uid != *uid {
                        l.fail(&case_id, class_with(&base, json!({"stage": "parse-meta", "kind": "mismatch", "what": "transfer syntax"})), detail(head.ts_uid.clone()));
                        continue;
                    }
                    check_wire(l, &case_id, &base, dict, ti, &bytes[head.dataset_offset..], &expected_wire, false, nodes);
                }
            },
        }
    }
}

pub fn run(which: Which, check: &Check) {
    let dict = Dict::load();
    let uni = universe(check);
    check.extra("universe_datasets", json!(uni.len()));
    check.par_range(uni.len() as u64, |l, i| {
        let nodes = &uni[i as usize];
        run_api_case(which, l, &dict, i as usize, nodes);
        run_recorded_case(which, l, &dict, i as usize, nodes);
        run_file_case(which, l, &dict, i as usize, nodes);
    });
}
