//! Generates `consts_gen.rs`: for every `pub const` of dicom-dictionary-std's `tags` and `uids`
//! modules (names read from the working tree's source), a (name, value) row where the value is the
//! *compiled* constant — this binds names in the extracted table to the real constants (C15).
use std::fmt::Write as _;
use std::path::PathBuf;

fn main() {
    println!("cargo:rerun-if-env-changed=VERIF_REPO");
    let repo = std::env::var("VERIF_REPO").unwrap_or_else(|_| "/repo".into());
    let tags_rs = format!("{repo}/dictionary-std/src/tags.rs");
    let uids_rs = format!("{repo}/dictionary-std/src/uids.rs");
    println!("cargo:rerun-if-changed={tags_rs}");
    println!("cargo:rerun-if-changed={uids_rs}");
    let tags = std::fs::read_to_string(&tags_rs).expect("tags.rs");
    let uids = std::fs::read_to_string(&uids_rs).expect("uids.rs");
    let mut out = String::new();
    out.push_str("#[allow(deprecated)]\npub static TAG_CONSTS: &[(&str, TagConst)] = &[\n");
    for line in tags.lines() {
        if let Some(rest) = line.strip_prefix("pub const ") {
            if let Some((name, ty)) = rest.split_once(':') {
                let ty = ty.trim_start();
                if ty.starts_with("Tag =") {
                    writeln!(out, "    (\"{name}\", TagConst::T(dicom_dictionary_std::tags::{name})),").unwrap();
                } else if ty.starts_with("TagRange =") {
                    writeln!(out, "    (\"{name}\", TagConst::R(dicom_dictionary_std::tags::{name})),").unwrap();
                }
            }
        }
    }
    out.push_str("];\n#[allow(deprecated)]\npub static UID_CONSTS: &[(&str, &str)] = &[\n");
    for line in uids.lines() {
        if let Some(rest) = line.strip_prefix("pub const ") {
            if let Some((name, ty)) = rest.split_once(':') {
                if ty.trim_start().starts_with("&str =") {
                    writeln!(out, "    (\"{name}\", dicom_dictionary_std::uids::{name}),").unwrap();
                }
            }
        }
    }
    out.push_str("];\n");
    let dir = PathBuf::from(std::env::var("OUT_DIR").unwrap());
    std::fs::write(dir.join("consts_gen.rs"), out).unwrap();
}
