//! shared helpers of this crate's checks (C11, C12, C14, C15, C17)
pub mod cal;
pub mod dictref;
pub mod num;

/// Compiled constants of dicom-dictionary-std bound to their source names (see build.rs).
pub mod consts {
    use dicom_core::dictionary::TagRange;
    use dicom_core::Tag;
    #[derive(Clone, Copy, Debug)]
    pub enum TagConst {
        T(Tag),
        R(TagRange),
    }
    include!(concat!(env!("OUT_DIR"), "/consts_gen.rs"));
}

pub fn hex(b: &[u8]) -> String {
    b.iter().map(|x| format!("{x:02X}")).collect::<Vec<_>>().join(" ")
}
