//! shared helpers of this crate's checks (C11, C12, C14, C15, C17)
pub mod cal;
pub mod dictref;
pub mod num;

/// Compiled constants of dicom-dictionary-std bound to their source names (see build.rs).
pub mod consts {
    use dicom_core::dictionary::TagRange;
    use dicom_core::Tag;
    #[derive(Clone, Copy, Debug)]
    pub enum TagConst {
        T(Tag),
        R(TagRange),
    }
    include!(concat!(env!("OUT_DIR"), "/consts_gen.rs"));
}

pub fn hex(b: &[u8]) -> String {
    b.iter().map(|x| format!("{x:02X}")).collect::<Vec<_>>().join(" ")
}

/// The library's error types capture a `std::backtrace::Backtrace` whenever RUST_BACKTRACE is set in the
/// caller's environment (tens of microseconds per `Err`); the checks provoke millions of errors on
/// purpose. RUST_LIB_BACKTRACE=0 switches that capture off without touching panic reporting or any
/// behaviour under test. Call first thing in `main`, before any thread exists.
pub fn quiet_error_backtraces() {
    std::env::set_var("RUST_LIB_BACKTRACE", "0");
}
