//! The published data element table as extracted from the working tree by ref/dict_extract.py
//! (pre-step dict.sh), with a reference lookup by *direct array indexing* in the precedence of the C15
//! statement: exact -> repeating group / repeating element -> private creator -> group length -> none.
//! No dicom-rs types here.

use std::collections::BTreeMap;

#[derive(Clone, Debug, PartialEq, Eq)]
pub struct Entry {
    pub kind: Kind,
    pub tag: (u16, u16),
    pub alias: String,
    pub vr: String, // exact VR or xs/ox/px/lt
    pub const_name: String,
}

#[derive(Clone, Copy, Debug, PartialEq, Eq, Hash, PartialOrd, Ord)]
pub enum Kind {
    Single,
    Group100,
    Element100,
}

#[derive(Clone, Copy, Debug, PartialEq, Eq)]
pub enum Lookup {
    /// index into `entries` (and alternatives, if the table has several rows for one key)
    Entry(u32),
    PrivateCreator,
    GroupLength,
    None,
}

/// One 65 536-slot page: entry index + 1, or 0.
type Page = Box<[u32]>;

pub struct DictRef {
    pub entries: Vec<Entry>,
    /// page per group for `single` rows, indexed by element
    single: Vec<Option<Page>>,
    /// page per (group & 0xFF00) >> 8 for group100 rows, indexed by element
    group100: Vec<Option<Page>>,
    /// page per group for element100 rows, indexed by element >> 8
    element100: Vec<Option<Box<[u32]>>>,
    /// keys that have more than one row (either is accepted; reported in evidence)
    pub duplicates: Vec<String>,
    alt: BTreeMap<u32, Vec<u32>>,
    pub docs: Vec<Doc>,
    pub consts: Vec<(String, Kind, (u16, u16))>,
}

#[derive(Clone, Debug)]
pub struct Doc {
    pub const_name: String,
    pub alias: String,
    pub pattern: String,
    pub vr: String,
}

pub struct SopEntry {
    pub uid: String,
    pub name: String,
    pub alias: String,
    pub ty: String,
    pub retired: bool,
}

pub fn dict_dir() -> String {
    let root = std::env::var("VERIF_ROOT").unwrap_or_else(|_| "/verif".into());
    format!("{root}/target/dict")
}

pub fn read_tsv(name: &str) -> Vec<Vec<String>> {
    let p = format!("{}/{name}", dict_dir());
    let txt = std::fs::read_to_string(&p).unwrap_or_else(|e| {
        eprintln!("MACHINERY: cannot read {p}: {e} (run pre/dict.sh)");
        std::process::exit(2)
    });
    txt.lines().filter(|l| !l.is_empty()).map(|l| l.split('\t').map(String::from).collect()).collect()
}

fn hex4(s: &str) -> u16 {
    u16::from_str_radix(s, 16).unwrap_or_else(|_| {
        eprintln!("MACHINERY: bad hex in extracted table: {s}");
        std::process::exit(2)
    })
}

fn kind_of(s: &str) -> Kind {
    match s {
        "single" => Kind::Single,
        "group100" => Kind::Group100,
        "element100" => Kind::Element100,
        k => {
            eprintln!("MACHINERY: unknown entry kind {k}");
            std::process::exit(2)
        }
    }
}

impl DictRef {
    pub fn load() -> DictRef {
        let mut d = DictRef {
            entries: vec![],
            single: (0..65536).map(|_| None).collect(),
            group100: (0..256).map(|_| None).collect(),
            element100: (0..65536).map(|_| None).collect(),
            duplicates: vec![],
            alt: BTreeMap::new(),
            docs: vec![],
            consts: vec![],
        };
        for f in read_tsv("dict.tsv") {
            let e = Entry { kind: kind_of(&f[0]), tag: (hex4(&f[1]), hex4(&f[2])), alias: f[3].clone(), vr: f[4].clone(), const_name: f[5].clone() };
            let idx = d.entries.len() as u32;
            let (g, el) = e.tag;
            let slot: &mut u32 = match e.kind {
                Kind::Single => &mut d.single[g as usize].get_or_insert_with(|| vec![0u32; 65536].into_boxed_slice())[el as usize],
                Kind::Group100 => &mut d.group100[(g >> 8) as usize].get_or_insert_with(|| vec![0u32; 65536].into_boxed_slice())[el as usize],
                Kind::Element100 => &mut d.element100[g as usize].get_or_insert_with(|| vec![0u32; 256].into_boxed_slice())[(el >> 8) as usize],
            };
            if *slot == 0 {
                *slot = idx + 1;
            } else {
                d.duplicates.push(format!("{:?} ({:04X},{:04X})", e.kind, g, el));
                d.alt.entry(*slot - 1).or_default().push(idx);
            }
            d.entries.push(e);
        }
        for f in read_tsv("docs.tsv") {
            d.docs.push(Doc { const_name: f[0].clone(), alias: f[1].clone(), pattern: f[2].clone(), vr: f[3].clone() });
        }
        for f in read_tsv("consts.tsv") {
            d.consts.push((f[0].clone(), kind_of(&f[1]), (hex4(&f[2]), hex4(&f[3]))));
        }
        d
    }

    /// Reference lookup, precedence of the statement.
    #[inline]
    pub fn lookup(&self, g: u16, e: u16) -> Lookup {
        if let Some(p) = &self.single[g as usize] {
            let v = p[e as usize];
            if v != 0 {
                return Lookup::Entry(v - 1);
            }
        }
        if let Some(p) = &self.group100[(g >> 8) as usize] {
            let v = p[e as usize];
            if v != 0 {
                return Lookup::Entry(v - 1);
            }
        }
        if let Some(p) = &self.element100[g as usize] {
            let v = p[(e >> 8) as usize];
            if v != 0 {
                return Lookup::Entry(v - 1);
            }
        }
        if g % 2 == 1 && (0x0010..=0x00FF).contains(&e) {
            return Lookup::PrivateCreator;
        }
        if e == 0 {
            return Lookup::GroupLength;
        }
        Lookup::None
    }

    /// all rows acceptable for an entry index (itself plus rows duplicating its key)
    pub fn alternatives(&self, idx: u32) -> Vec<u32> {
        let mut v = vec![idx];
        if let Some(a) = self.alt.get(&idx) {
            v.extend(a);
        }
        v
    }

    /// groups that own at least one row (single or element100), and repeating group bases
    pub fn groups_with_entries(&self) -> Vec<u16> {
        (0..=65535u16).filter(|&g| self.single[g as usize].is_some() || self.element100[g as usize].is_some()).collect()
    }
    pub fn repeating_group_bases(&self) -> Vec<u16> {
        (0..256u16).filter(|&h| self.group100[h as usize].is_some()).map(|h| h << 8).collect()
    }
}

pub fn load_sop_classes() -> Vec<SopEntry> {
    read_tsv("sop_classes.tsv")
        .into_iter()
        .map(|f| SopEntry { uid: f[0].clone(), name: f[1].clone(), alias: f[2].clone(), ty: f[3].clone(), retired: f[4] == "true" })
        .collect()
}

/// (const_name, uid, type text, name text) from the UID constants' doc comments
pub fn load_uid_docs() -> Vec<(String, String, String, String)> {
    read_tsv("uid_docs.tsv").into_iter().map(|f| (f[0].clone(), f[1].clone(), f[2].clone(), f.get(3).cloned().unwrap_or_default())).collect()
}
