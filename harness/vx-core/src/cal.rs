//! Proleptic Gregorian calendar and DICOM DA/TM/DT text, written from PS3.5 6.2 — no chrono, no dicom-rs.
//! Everything is plain integer arithmetic on component tuples.

/// Gregorian leap-year rule.
pub fn is_leap(y: i64) -> bool {
    (y % 4 == 0 && y % 100 != 0) || y % 400 == 0
}

/// Number of days of month `m` (1..=12) in year `y`; 0 for an invalid month.
pub fn days_in_month(y: i64, m: u32) -> u32 {
    match m {
        1 | 3 | 5 | 7 | 8 | 10 | 12 => 31,
        4 | 6 | 9 | 11 => 30,
        2 => {
            if is_leap(y) {
                29
            } else {
                28
            }
        }
        _ => 0,
    }
}

pub fn valid_ymd(y: i64, m: u32, d: u32) -> bool {
    (0..=9999).contains(&y) && (1..=12).contains(&m) && d >= 1 && d <= days_in_month(y, m)
}

/// Days since 0000-01-01 (day 0), by summation of year and month lengths (deliberately naive:
/// a closed formula would be one more thing to trust).
pub struct DayTable {
    year_start: Vec<i64>,
}
impl Default for DayTable {
    fn default() -> Self {
        Self::new()
    }
}
impl DayTable {
    pub fn new() -> DayTable {
        let mut year_start = Vec::with_capacity(10001);
        let mut acc = 0i64;
        for y in 0..=10000 {
            year_start.push(acc);
            acc += if is_leap(y) { 366 } else { 365 };
        }
        DayTable { year_start }
    }
    pub fn days(&self, y: i64, m: u32, d: u32) -> i64 {
        let mut n = self.year_start[y as usize];
        for mm in 1..m {
            n += days_in_month(y, mm) as i64;
        }
        n + d as i64 - 1
    }
}

/// A partial date: year, optional month, optional day (day only with month).
#[derive(Clone, Copy, Debug, PartialEq, Eq, Hash, PartialOrd, Ord)]
pub struct PDate {
    pub y: u16,
    pub m: Option<u8>,
    pub d: Option<u8>,
}

/// A partial time: hour, optional minute, optional second, optional (fraction, precision 1..=6).
#[derive(Clone, Copy, Debug, PartialEq, Eq, Hash, PartialOrd, Ord)]
pub struct PTime {
    pub h: u8,
    pub mi: Option<u8>,
    pub s: Option<u8>,
    pub f: Option<(u32, u8)>,
}

/// Partial date-time; `off` is the UTC offset in minutes east.
#[derive(Clone, Copy, Debug, PartialEq, Eq, Hash, PartialOrd, Ord)]
pub struct PDateTime {
    pub date: PDate,
    pub time: Option<PTime>,
    pub off: Option<i32>,
}

/// A precise local instant: (y, m, d, h, mi, s (0..=60), microsecond).
pub type Instant = (i64, u32, u32, u32, u32, u32, u32);
/// Precise time of day: (h, mi, s (0..=60), microsecond).
pub type TimeOfDay = (u32, u32, u32, u32);

impl PDate {
    pub fn valid(&self) -> bool {
        let y = self.y as i64;
        if !(0..=9999).contains(&y) {
            return false;
        }
        match (self.m, self.d) {
            (None, None) => true,
            (Some(m), None) => (1..=12).contains(&m),
            (Some(m), Some(d)) => valid_ymd(y, m as u32, d as u32),
            (None, Some(_)) => false,
        }
    }
    pub fn text(&self) -> String {
        let mut s = format!("{:04}", self.y);
        if let Some(m) = self.m {
            s.push_str(&format!("{:02}", m));
        }
        if let Some(d) = self.d {
            s.push_str(&format!("{:02}", d));
        }
        s
    }
    pub fn precise(&self) -> bool {
        self.d.is_some()
    }
    /// smallest completion
    pub fn earliest(&self) -> (i64, u32, u32) {
        (self.y as i64, self.m.unwrap_or(1) as u32, self.d.unwrap_or(1) as u32)
    }
    /// largest completion
    pub fn latest(&self) -> (i64, u32, u32) {
        let y = self.y as i64;
        let m = self.m.unwrap_or(12) as u32;
        let d = match self.d {
            Some(d) => d as u32,
            None => days_in_month(y, m),
        };
        (y, m, d)
    }
}

pub fn pow10(p: u32) -> u32 {
    let mut r = 1u32;
    for _ in 0..p {
        r *= 10;
    }
    r
}

impl PTime {
    pub fn valid(&self) -> bool {
        if self.h > 23 {
            return false;
        }
        match (self.mi, self.s, self.f) {
            (None, None, None) => true,
            (Some(mi), None, None) => mi <= 59,
            (Some(mi), Some(s), None) => mi <= 59 && s <= 60,
            (Some(mi), Some(s), Some((f, p))) => mi <= 59 && s <= 60 && (1..=6).contains(&p) && f < pow10(p as u32),
            _ => false,
        }
    }
    pub fn text(&self) -> String {
        let mut t = format!("{:02}", self.h);
        if let Some(mi) = self.mi {
            t.push_str(&format!("{:02}", mi));
        }
        if let Some(s) = self.s {
            t.push_str(&format!("{:02}", s));
        }
        if let Some((f, p)) = self.f {
            t.push('.');
            t.push_str(&format!("{:0width$}", f, width = p as usize));
        }
        t
    }
    pub fn precise(&self) -> bool {
        matches!(self.f, Some((_, 6)))
    }
    pub fn earliest(&self) -> TimeOfDay {
        let us = match self.f {
            None => 0,
            Some((f, p)) => f * pow10(6 - p as u32),
        };
        (self.h as u32, self.mi.unwrap_or(0) as u32, self.s.unwrap_or(0) as u32, us)
    }
    /// Largest completion; a missing second is completed with 59 (second 60 exists only where a
    /// leap second is inserted, which a partial time cannot know).
    pub fn latest(&self) -> TimeOfDay {
        let us = match self.f {
            None => 999_999,
            Some((f, p)) => f * pow10(6 - p as u32) + pow10(6 - p as u32) - 1,
        };
        (self.h as u32, self.mi.unwrap_or(59) as u32, self.s.unwrap_or(59) as u32, us)
    }
}

pub fn offset_text(off_min: i32) -> String {
    let sign = if off_min < 0 { '-' } else { '+' };
    let a = off_min.unsigned_abs();
    format!("{}{:02}{:02}", sign, a / 60, a % 60)
}

pub fn valid_offset(off_min: i32) -> bool {
    (-12 * 60..=14 * 60).contains(&off_min)
}

impl PDateTime {
    pub fn valid(&self) -> bool {
        self.date.valid()
            && self.time.map(|t| t.valid() && self.date.precise()).unwrap_or(true)
            && self.off.map(valid_offset).unwrap_or(true)
    }
    pub fn text(&self) -> String {
        let mut s = self.date.text();
        if let Some(t) = self.time {
            s.push_str(&t.text());
        }
        if let Some(o) = self.off {
            s.push_str(&offset_text(o));
        }
        s
    }
    pub fn precise(&self) -> bool {
        self.time.map(|t| t.precise()).unwrap_or(false)
    }
    pub fn earliest(&self) -> Instant {
        let (y, m, d) = self.date.earliest();
        let (h, mi, s, us) = self.time.map(|t| t.earliest()).unwrap_or((0, 0, 0, 0));
        (y, m, d, h, mi, s, us)
    }
    pub fn latest(&self) -> Instant {
        let (y, m, d) = self.date.latest();
        let (h, mi, s, us) = self.time.map(|t| t.latest()).unwrap_or((23, 59, 59, 999_999));
        (y, m, d, h, mi, s, us)
    }
}

/// Ordering key of a local instant at the given offset (minutes east): (whole seconds since
/// 0000-01-01T00:00 UTC with a leap second counted as second 59, microseconds where a leap second adds
/// 10^6). A leap second 23:59:60.x thus sorts after 23:59:59.x and before the following 00:00:00.
pub fn utc_micros(t: &DayTable, i: Instant, off_min: i32) -> (i128, u32) {
    let days = t.days(i.0, i.1, i.2) as i128;
    let leap = i.5 == 60;
    let s = if leap { 59 } else { i.5 };
    let secs = days * 86400 + (i.3 as i128) * 3600 + (i.4 as i128) * 60 + s as i128 - (off_min as i128) * 60;
    (secs, i.6 + if leap { 1_000_000 } else { 0 })
}

fn digits(b: &[u8]) -> Option<u32> {
    if b.is_empty() || !b.iter().all(|c| c.is_ascii_digit()) {
        return None;
    }
    let mut v = 0u32;
    for c in b {
        v = v * 10 + (c - b'0') as u32;
    }
    Some(v)
}

/// Strict parser of one DT text `YYYY[MM[DD[HH[MM[SS[.F{1,6}]]]]]][(+|-)HHMM]`; None unless the whole
/// text is a valid partial date-time.
pub fn parse_dt(text: &[u8]) -> Option<PDateTime> {
    // split a trailing offset
    let (body, off) = if text.len() >= 5 && (text[text.len() - 5] == b'+' || text[text.len() - 5] == b'-') {
        let o = &text[text.len() - 4..];
        let hh = digits(&o[0..2])?;
        let mm = digits(&o[2..4])?;
        if mm > 59 {
            return None;
        }
        let mut v = (hh * 60 + mm) as i32;
        if text[text.len() - 5] == b'-' {
            v = -v;
        }
        if !valid_offset(v) {
            return None;
        }
        (&text[..text.len() - 5], Some(v))
    } else {
        (text, None)
    };
    let (main, frac) = match body.iter().position(|&c| c == b'.') {
        Some(p) => (&body[..p], Some(&body[p + 1..])),
        None => (body, None),
    };
    if !main.iter().all(|c| c.is_ascii_digit()) {
        return None;
    }
    let n = main.len();
    if ![4, 6, 8, 10, 12, 14].contains(&n) {
        return None;
    }
    let num = |a: usize, b: usize| digits(&main[a..b]);
    let date = PDate {
        y: num(0, 4)? as u16,
        m: if n >= 6 { Some(num(4, 6)? as u8) } else { None },
        d: if n >= 8 { Some(num(6, 8)? as u8) } else { None },
    };
    let f = match frac {
        None => None,
        Some(fr) => {
            if n != 14 || fr.is_empty() || fr.len() > 6 {
                return None;
            }
            Some((digits(fr)?, fr.len() as u8))
        }
    };
    let time = if n >= 10 {
        Some(PTime {
            h: num(8, 10)? as u8,
            mi: if n >= 12 { Some(num(10, 12)? as u8) } else { None },
            s: if n >= 14 { Some(num(12, 14)? as u8) } else { None },
            f,
        })
    } else {
        None
    };
    let v = PDateTime { date, time, off };
    if v.valid() {
        Some(v)
    } else {
        None
    }
}

#[cfg(test)]
mod tests {
    use super::*;
    #[test]
    fn basics() {
        assert!(is_leap(2000) && is_leap(2024) && !is_leap(1900) && !is_leap(2023) && is_leap(0));
        let t = DayTable::new();
        assert_eq!(t.days(0, 1, 1), 0);
        assert_eq!(t.days(1, 1, 1), 366);
        assert_eq!(t.days(2000, 3, 1) - t.days(2000, 2, 28), 2);
        // 1970-01-01 is 719528 days after 0000-01-01
        assert_eq!(t.days(1970, 1, 1), 719_528);
        let v = parse_dt(b"20240229103059.5-0330").unwrap();
        assert_eq!(v.text(), "20240229103059.5-0330");
        assert_eq!(v.off, Some(-210));
        assert!(parse_dt(b"20230229").is_none());
        assert!(parse_dt(b"2024-0100").unwrap().off == Some(-60));
        assert!(parse_dt(b"2024+1500").is_none());
    }
}
