//! C12 — partial dates, times and date-times round-trip through text and bound their ranges.
//!
//! Oracle side: `vx_core::cal` (integer calendar arithmetic, own text formatter and strict parser);
//! chrono is touched only to *observe* the library's results (component accessors) and to hand the
//! library a `FixedOffset` input. Nothing here depends on the host time zone: the default
//! `parse_datetime_range` (which consults the local zone for mixed ranges) is used only on ranges whose
//! two ends agree about having an offset; mixed ranges go through the three host-independent strategies.
use dicom_core::chrono::{Datelike, FixedOffset, NaiveDate, NaiveDateTime, NaiveTime, Timelike};
use dicom_core::value::deserialize::{parse_date_partial, parse_datetime_partial, parse_time_partial};
use dicom_core::value::range::{
    parse_date_range, parse_datetime_range, parse_datetime_range_custom, parse_time_range, FailOnAmbiguousRange, IgnoreTimeZone, ToKnownTimeZone,
};
use dicom_core::value::{AsRange, DateTimeRange, DicomDate, DicomDateTime, DicomTime, PreciseDateTime, PrimitiveValue};
use vx_core::cal::{self, DayTable, Instant, PDate, PDateTime, PTime, TimeOfDay};
use vx_kit::{guard, json, Check, Level, Local};

struct Fail {
    stage: &'static str,
    kind: &'static str,
    msg: String,
}
fn fail<T>(stage: &'static str, kind: &'static str, msg: String) -> Result<T, Fail> {
    Err(Fail { stage, kind, msg })
}

// ------------------------------------------------------------------ observation of library values
fn obs_date(d: &DicomDate) -> PDate {
    PDate { y: *d.year(), m: d.month().copied(), d: d.day().copied() }
}
fn obs_time(t: &DicomTime) -> PTime {
    let fp = t.fraction_precision();
    let f = if fp == 0 { None } else { t.fraction_micro().map(|us| (us / cal::pow10(6 - fp as u32), fp)) };
    PTime { h: *t.hour(), mi: t.minute().copied(), s: t.second().copied(), f }
}
fn obs_dt(v: &DicomDateTime) -> PDateTime {
    PDateTime { date: obs_date(v.date()), time: v.time().map(obs_time), off: v.time_zone().map(|o| o.local_minus_utc() / 60) }
}
fn obs_nd(d: &NaiveDate) -> (i64, u32, u32) {
    (d.year() as i64, d.month(), d.day())
}
/// chrono stores a leap second as second 59 with nanosecond >= 10^9
fn obs_nt(t: &NaiveTime) -> Result<TimeOfDay, String> {
    let ns = t.nanosecond();
    if ns % 1000 != 0 {
        return Err(format!("sub-microsecond residue in {t:?}"));
    }
    if ns >= 1_000_000_000 {
        Ok((t.hour(), t.minute(), t.second() + 1, (ns - 1_000_000_000) / 1000))
    } else {
        Ok((t.hour(), t.minute(), t.second(), ns / 1000))
    }
}
fn obs_ndt(d: &NaiveDateTime) -> Result<Instant, String> {
    let (y, m, dd) = obs_nd(&d.date());
    let (h, mi, s, us) = obs_nt(&d.time())?;
    Ok((y, m, dd, h, mi, s, us))
}
fn obs_precise(p: &PreciseDateTime) -> Result<(Instant, Option<i32>), String> {
    match p {
        PreciseDateTime::Naive(n) => Ok((obs_ndt(n)?, None)),
        PreciseDateTime::TimeZone(z) => {
            let secs = z.offset().local_minus_utc();
            if secs % 60 != 0 {
                return Err(format!("offset with seconds {secs}"));
            }
            Ok((obs_ndt(&z.naive_local())?, Some(secs / 60)))
        }
    }
}

// ------------------------------------------------------------------ construction through the public API
fn mk_date(r: PDate) -> Result<DicomDate, String> {
    match (r.m, r.d) {
        (None, _) => DicomDate::from_y(r.y),
        (Some(m), None) => DicomDate::from_ym(r.y, m),
        (Some(m), Some(d)) => DicomDate::from_ymd(r.y, m, d),
    }
    .map_err(|e| e.to_string())
}
/// None when the API has no constructor for this precision (fractions other than 3 and 6 digits)
fn mk_time(r: PTime) -> Option<Result<DicomTime, String>> {
    let v = match (r.mi, r.s, r.f) {
        (None, _, _) => DicomTime::from_h(r.h),
        (Some(mi), None, _) => DicomTime::from_hm(r.h, mi),
        (Some(mi), Some(s), None) => DicomTime::from_hms(r.h, mi, s),
        (Some(mi), Some(s), Some((f, 3))) => DicomTime::from_hms_milli(r.h, mi, s, f),
        (Some(mi), Some(s), Some((f, 6))) => DicomTime::from_hms_micro(r.h, mi, s, f),
        _ => return None,
    };
    Some(v.map_err(|e| e.to_string()))
}
fn mk_offset(min: i32) -> Result<FixedOffset, String> {
    FixedOffset::east_opt(min * 60).ok_or_else(|| format!("chrono refused offset {min}"))
}

fn even(n: usize) -> usize {
    (n + 1) & !1
}

// ------------------------------------------------------------------ per-value checks
fn check_date_value(r: PDate) -> Result<&'static str, Fail> {
    let v = mk_date(r).or_else(|e| fail("construct", "rejected-valid", e))?;
    if obs_date(&v) != r {
        return fail("construct", "components", format!("{:?}", obs_date(&v)));
    }
    let text = v.to_encoded();
    if text != r.text() {
        return fail("encode", "text", format!("to_encoded {text:?} expected {:?}", r.text()));
    }
    match parse_date_partial(text.as_bytes()) {
        Ok((back, rest)) => {
            if !rest.is_empty() || back != v || obs_date(&back) != r {
                return fail("parse", "roundtrip", format!("{text:?} parsed to {back:?} rest {rest:?}"));
            }
        }
        Err(e) => return fail("parse", "rejected", format!("{text:?}: {e}")),
    }
    match text.parse::<DicomDate>() {
        Ok(b) if b == v => {}
        other => return fail("parse", "from_str", format!("{text:?}: {other:?}")),
    }
    let len = PrimitiveValue::from(v).calculate_byte_len();
    if len != even(text.len()) {
        return fail("length", "byte-len", format!("reported {len} for text {text:?}"));
    }
    if v.is_precise() != r.precise() {
        return fail("precision", "is_precise", format!("{}", v.is_precise()));
    }
    let e = v.earliest().map(|d| obs_nd(&d)).map_err(|e| e.to_string());
    let la = v.latest().map(|d| obs_nd(&d)).map_err(|e| e.to_string());
    if e != Ok(r.earliest()) {
        return fail("earliest", "bound", format!("{e:?} expected {:?}", r.earliest()));
    }
    if la != Ok(r.latest()) {
        return fail("latest", "bound", format!("{la:?} expected {:?}", r.latest()));
    }
    if !(v.earliest().unwrap() <= v.latest().unwrap()) {
        return fail("order", "earliest>latest", String::new());
    }
    let ex = v.exact().map(|d| obs_nd(&d)).map_err(|_| ());
    if r.precise() {
        if ex != Ok(r.earliest()) {
            return fail("exact", "value", format!("{ex:?}"));
        }
    } else if ex.is_ok() {
        return fail("exact", "imprecise-accepted", format!("{ex:?}"));
    }
    match v.range() {
        Ok(rg) => {
            if rg.start().map(obs_nd) != Some(r.earliest()) || rg.end().map(obs_nd) != Some(r.latest()) {
                return fail("range", "bounds", format!("{rg:?}"));
            }
        }
        Err(e) => return fail("range", "err", e.to_string()),
    }
    Ok(match (r.m, r.d) {
        (None, _) => "date/ok/year",
        (_, None) => "date/ok/month",
        _ => "date/ok/day",
    })
}

fn check_time_value(r: PTime) -> Result<&'static str, Fail> {
    let text0 = r.text();
    // value: by constructor where one exists, and always by parsing the canonical text
    let parsed = match parse_time_partial(text0.as_bytes()) {
        Ok((v, rest)) => {
            if !rest.is_empty() {
                return fail("parse", "rest", format!("{text0:?} left {rest:?}"));
            }
            v
        }
        Err(e) => return fail("parse", "rejected", format!("{text0:?}: {e}")),
    };
    let v = match mk_time(r) {
        Some(Ok(v)) => {
            if v != parsed {
                return fail("parse", "roundtrip", format!("constructed {v:?} but {text0:?} parsed to {parsed:?}"));
            }
            v
        }
        Some(Err(e)) => return fail("construct", "rejected-valid", e),
        None => parsed,
    };
    if obs_time(&v) != r {
        return fail("construct", "components", format!("{:?}", obs_time(&v)));
    }
    let text = v.to_encoded();
    if text != text0 {
        return fail("encode", "text", format!("to_encoded {text:?} expected {text0:?}"));
    }
    match parse_time_partial(text.as_bytes()) {
        Ok((back, rest)) if rest.is_empty() && back == v => {}
        other => return fail("parse", "roundtrip", format!("{text:?}: {other:?}")),
    }
    match text.parse::<DicomTime>() {
        Ok(b) if b == v => {}
        other => return fail("parse", "from_str", format!("{text:?}: {other:?}")),
    }
    let len = PrimitiveValue::from(v).calculate_byte_len();
    if len != even(text.len()) {
        return fail("length", "byte-len", format!("reported {len} for text {text:?}"));
    }
    if v.is_precise() != r.precise() {
        return fail("precision", "is_precise", format!("{}", v.is_precise()));
    }
    let e = v.earliest().map_err(|e| e.to_string()).and_then(|t| obs_nt(&t));
    let la = v.latest().map_err(|e| e.to_string()).and_then(|t| obs_nt(&t));
    if e != Ok(r.earliest()) {
        return fail("earliest", "bound", format!("{e:?} expected {:?}", r.earliest()));
    }
    if la != Ok(r.latest()) {
        return fail("latest", "bound", format!("{la:?} expected {:?}", r.latest()));
    }
    if !(v.earliest().unwrap() <= v.latest().unwrap()) {
        return fail("order", "earliest>latest", String::new());
    }
    let ex = v.exact().map_err(|_| ()).and_then(|t| obs_nt(&t).map_err(|_| ()));
    if r.precise() {
        if ex != Ok(r.earliest()) {
            return fail("exact", "value", format!("{ex:?}"));
        }
    } else if ex.is_ok() {
        return fail("exact", "imprecise-accepted", format!("{ex:?}"));
    }
    match v.range() {
        Ok(rg) => {
            let s = rg.start().map(obs_nt);
            let en = rg.end().map(obs_nt);
            if s != Some(Ok(r.earliest())) || en != Some(Ok(r.latest())) {
                return fail("range", "bounds", format!("{rg:?}"));
            }
        }
        Err(e) => return fail("range", "err", e.to_string()),
    }
    Ok(match (r.mi, r.s, r.f) {
        (None, _, _) => "time/ok/hour",
        (_, None, _) => "time/ok/minute",
        (_, Some(60), None) => "time/ok/second-leap",
        (_, _, None) => "time/ok/second",
        (_, Some(60), _) => "time/ok/fraction-leap",
        _ => "time/ok/fraction",
    })
}

fn mk_dt(r: PDateTime) -> Result<DicomDateTime, String> {
    let date = mk_date(r.date)?;
    let time = match r.time {
        None => None,
        Some(t) => Some(match mk_time(t) {
            Some(v) => v?,
            None => parse_time_partial(t.text().as_bytes()).map_err(|e| e.to_string())?.0,
        }),
    };
    match (time, r.off) {
        (None, None) => Ok(DicomDateTime::from_date(date)),
        (None, Some(o)) => Ok(DicomDateTime::from_date_with_time_zone(date, mk_offset(o)?)),
        (Some(t), None) => DicomDateTime::from_date_and_time(date, t).map_err(|e| e.to_string()),
        (Some(t), Some(o)) => DicomDateTime::from_date_and_time_with_time_zone(date, t, mk_offset(o)?).map_err(|e| e.to_string()),
    }
}

fn check_dt_value(r: PDateTime, days: &DayTable) -> Result<&'static str, Fail> {
    let v = mk_dt(r).or_else(|e| fail("construct", "rejected-valid", e))?;
    if obs_dt(&v) != r {
        return fail("construct", "components", format!("{:?}", obs_dt(&v)));
    }
    let text = v.to_encoded();
    if text != r.text() {
        return fail("encode", "text", format!("to_encoded {text:?} expected {:?}", r.text()));
    }
    match parse_datetime_partial(text.as_bytes()) {
        Ok(back) if back == v && obs_dt(&back) == r => {}
        other => return fail("parse", "roundtrip", format!("{text:?}: {other:?}")),
    }
    match text.parse::<DicomDateTime>() {
        Ok(b) if b == v => {}
        other => return fail("parse", "from_str", format!("{text:?}: {other:?}")),
    }
    let len = PrimitiveValue::from(v).calculate_byte_len();
    if len != even(text.len()) {
        return fail("length", "byte-len", format!("reported {len} for text {text:?}"));
    }
    if v.is_precise() != r.precise() {
        return fail("precision", "is_precise", format!("{}", v.is_precise()));
    }
    let e = v.earliest().map_err(|e| e.to_string()).and_then(|p| obs_precise(&p));
    let la = v.latest().map_err(|e| e.to_string()).and_then(|p| obs_precise(&p));
    if e != Ok((r.earliest(), r.off)) {
        return fail("earliest", "bound", format!("{e:?} expected {:?}", (r.earliest(), r.off)));
    }
    if la != Ok((r.latest(), r.off)) {
        return fail("latest", "bound", format!("{la:?} expected {:?}", (r.latest(), r.off)));
    }
    // reference order in UTC microseconds; library order on its own values
    let o = r.off.unwrap_or(0);
    if cal::utc_micros(days, r.earliest(), o) > cal::utc_micros(days, r.latest(), o) {
        return fail("order", "reference", "reference earliest > latest".into());
    }
    if !(v.earliest().unwrap() <= v.latest().unwrap()) {
        return fail("order", "earliest>latest", String::new());
    }
    let ex = v.exact().map_err(|_| ()).and_then(|p| obs_precise(&p).map_err(|_| ()));
    if r.precise() {
        if ex != Ok((r.earliest(), r.off)) {
            return fail("exact", "value", format!("{ex:?}"));
        }
    } else if ex.is_ok() {
        return fail("exact", "imprecise-accepted", format!("{ex:?}"));
    }
    match v.range() {
        Ok(rg) => {
            let s = rg.start().map(|p| obs_precise(&p));
            let en = rg.end().map(|p| obs_precise(&p));
            if s != Some(Ok((r.earliest(), r.off))) || en != Some(Ok((r.latest(), r.off))) {
                return fail("range", "bounds", format!("{rg:?}"));
            }
        }
        Err(e) => return fail("range", "err", e.to_string()),
    }
    Ok(match (r.time.is_some(), r.off.is_some()) {
        (false, false) => "datetime/ok/date-only",
        (false, true) => "datetime/ok/date+offset",
        (true, false) => "datetime/ok/date+time",
        (true, true) => "datetime/ok/date+time+offset",
    })
}

// ------------------------------------------------------------------ ranges
#[derive(Clone, Copy, PartialEq, Debug)]
enum Strategy {
    Default,
    Fail,
    Ignore,
    Known,
}

type Bound = (Instant, Option<i32>);

/// expected result of one candidate split under a strategy: Ok(Some(range)) / Ok(None) = must be Err
fn expect_dt_range(a: Option<PDateTime>, b: Option<PDateTime>, s: Strategy, days: &DayTable) -> Option<(Option<Bound>, Option<Bound>)> {
    let start = a.map(|a| (a.earliest(), a.off));
    let end = b.map(|b| (b.latest(), b.off));
    match (start, end) {
        (Some((si, so)), Some((ei, eo))) => match (so, eo) {
            (None, None) => {
                if si > ei {
                    None
                } else {
                    Some((Some((si, None)), Some((ei, None))))
                }
            }
            (Some(x), Some(y)) => {
                if cal::utc_micros(days, si, x) > cal::utc_micros(days, ei, y) {
                    None
                } else {
                    Some((Some((si, Some(x))), Some((ei, Some(y)))))
                }
            }
            (so, eo) => match s {
                Strategy::Default => None, // not used on mixed ranges
                Strategy::Fail => None,
                Strategy::Ignore => {
                    if si > ei {
                        None
                    } else {
                        Some((Some((si, None)), Some((ei, None))))
                    }
                }
                Strategy::Known => {
                    let z = so.or(eo).unwrap();
                    if cal::utc_micros(days, si, z) > cal::utc_micros(days, ei, z) {
                        None
                    } else {
                        Some((Some((si, Some(z))), Some((ei, Some(z)))))
                    }
                }
            },
        },
        (s, e) => Some((s, e)),
    }
}

fn obs_dtrange(r: &DateTimeRange) -> Result<(Option<Bound>, Option<Bound>), String> {
    let s = match r.start() {
        Some(p) => Some(obs_precise(&p)?),
        None => None,
    };
    let e = match r.end() {
        Some(p) => Some(obs_precise(&p)?),
        None => None,
    };
    Ok((s, e))
}

fn main() {
    let check = Check::from_args("C12", Level::Exploration);
    let days = DayTable::new();
    let years: Vec<u16> = if check.quick() { vec![0, 1, 4, 100, 400, 1900, 1999, 2000, 2023, 2024, 9999] } else { (0..=9999).collect() };
    check.set_rule("dates: for every year of the tier (quick: {0,1,4,100,400,1900,1999,2000,2023,2024,9999}; thorough: 0..=9999) the year, its 12 year-months and every day 1..31 of every month (valid ones are checked, invalid ones only tallied: the constructors deliberately accept them); times: every hour, hour-minute, hour-minute-second (second 0..=60) and for every such second the fractions {0,1,9,5*10^(p-1),10^p-1} for p=1..6 (thorough: every fraction for p<=3, and every fraction for p=4..6 on four times incl. a leap second); date-times: reduced dates (11 years x {year, 4 months, first/last days, leap days}) x 24 reduced times x offsets {none,+0000,-1200,+1400,+0530,-0330}; ranges A-B, A-, -B over reduced dates^2, reduced times^2, reduced date-times^2 x {default parser on offset-consistent ranges, FailOnAmbiguousRange, IgnoreTimeZone, ToKnownTimeZone}. A case is one value or one range text (distinct by its text); non-trivial = constructed/parsed and all observations compared");
    check.assume("vx_core::cal calendar arithmetic (own leap-year rule and month lengths), text formatter and strict DT parser are the trusted reference; chrono accessors are trusted to report the components of the library's results; a missing second completes to 0..59 (second 60 is never invented)");
    let replaying = check.replaying();

    for (text, what) in [("20240229", "leap day"), ("202402", "year-month"), ("235960.5", "leap second with one fraction digit"), ("20240229103059.123456-0330", "precise date-time with offset")] {
        let v = cal::parse_dt(text.as_bytes());
        let t = if text.len() < 14 && text.contains('.') || text.len() <= 6 && text.starts_with("23") { None } else { v };
        check.sample(json!({"text": text, "what": what, "reference": format!("{:?}", t), "parse_datetime_partial": format!("{:?}", parse_datetime_partial(text.as_bytes()).map(|d| (d.to_encoded(), d.earliest().map(|p| format!("{p:?}")).ok(), d.latest().map(|p| format!("{p:?}")).ok()))), "parse_time_partial": format!("{:?}", parse_time_partial(text.as_bytes()).map(|(t, _)| (t.to_encoded(), t.earliest().ok(), t.latest().ok())))}));
    }
    // ---------------- dates ----------------
    check.par_range(years.len() as u64, |l, yi| {
        let y = years[yi as usize];
        let oks: [std::cell::Cell<u64>; 3] = Default::default();
        let n = std::cell::Cell::new(0u64);
        let mut invalid_acc = 0u64;
        let mut invalid_rej = 0u64;
        let one = |l: &mut Local, r: PDate| {
            if replaying && !l.want(&format!("date/{}", r.text())) {
                return;
            }
            n.set(n.get() + 1);
            match guard(|| check_date_value(r)) {
                Ok(Ok(o)) => {
                    let c = &oks[match o {
                        "date/ok/year" => 0,
                        "date/ok/month" => 1,
                        _ => 2,
                    }];
                    c.set(c.get() + 1)
                }
                Ok(Err(f)) => {
                    l.outcome("date/FAIL");
                    l.fail(&format!("date/{}", r.text()), json!({"family": "date", "precision": if r.d.is_some() { "day" } else if r.m.is_some() { "month" } else { "year" }, "stage": f.stage, "kind": f.kind}), json!({"value": r.text(), "message": f.msg}));
                }
                Err(p) => {
                    l.outcome("date/PANIC");
                    l.fail(&format!("date/{}", r.text()), json!({"family": "date", "stage": "any", "kind": "panic"}), json!({"value": r.text(), "message": p}));
                }
            }
        };
        one(l, PDate { y, m: None, d: None });
        for m in 0..=13u8 {
            let rm = PDate { y, m: Some(m), d: None };
            if rm.valid() {
                one(l, rm);
            }
            for d in 0..=32u8 {
                let r = PDate { y, m: Some(m), d: Some(d) };
                if r.valid() {
                    one(l, r);
                } else {
                    // out of the statement's scope: tally what the constructor does; nothing may panic and a
                    // bound, if produced, must carry the given components (impossible for a non-date)
                    if replaying && !l.want(&format!("date-invalid/{y:04}{m:02}{d:02}")) {
                        continue;
                    }
                    n.set(n.get() + 1);
                    let res = guard(|| match DicomDate::from_ymd(y, m, d) {
                        Err(_) => Ok(false),
                        Ok(v) => {
                            let _ = v.to_encoded();
                            let _ = PrimitiveValue::from(v).calculate_byte_len();
                            match (v.earliest(), v.latest(), v.exact()) {
                                (Err(_), Err(_), Err(_)) => Ok(true),
                                other => Err(format!("{other:?}")),
                            }
                        }
                    });
                    match res {
                        Ok(Ok(true)) => invalid_acc += 1,
                        Ok(Ok(false)) => invalid_rej += 1,
                        Ok(Err(m2)) => {
                            l.outcome("date/FAIL");
                            l.fail(&format!("date-invalid/{y:04}{m:02}{d:02}"), json!({"family": "date", "precision": "day", "stage": "bounds-of-non-date", "kind": "instant-produced"}), json!({"y": y, "m": m, "d": d, "message": m2}));
                        }
                        Err(p) => {
                            l.outcome("date/PANIC");
                            l.fail(&format!("date-invalid/{y:04}{m:02}{d:02}"), json!({"family": "date", "stage": "non-date", "kind": "panic"}), json!({"y": y, "m": m, "d": d, "message": p}));
                        }
                    }
                }
            }
        }
        l.evals(n.get());
        l.nontrivial_distinct_by_construction(n.get());
        l.outcome_n("date/ok/year", oks[0].get());
        l.outcome_n("date/ok/month", oks[1].get());
        l.outcome_n("date/ok/day", oks[2].get());
        l.outcome_n("date/non-date/constructor-accepts-bounds-fail", invalid_acc);
        l.outcome_n("date/non-date/constructor-rejects", invalid_rej);
    });

    // ---------------- times ----------------
    let thorough = check.thorough();
    let full_frac_times: [(u8, u8, u8); 4] = [(0, 0, 0), (23, 59, 59), (23, 59, 60), (10, 30, 59)];
    check.par_range(24 * 60, |l, i| {
        let (h, mi) = ((i / 60) as u8, (i % 60) as u8);
        let mut n = 0u64;
        let mut counts: std::collections::BTreeMap<&'static str, u64> = Default::default();
        let mut one = |l: &mut Local, r: PTime| {
            if replaying && !l.want(&format!("time/{}", r.text())) {
                return;
            }
            n += 1;
            match guard(|| check_time_value(r)) {
                Ok(Ok(o)) => *counts.entry(o).or_insert(0) += 1,
                Ok(Err(f)) => {
                    l.outcome("time/FAIL");
                    let prec = match (r.mi, r.s, r.f) {
                        (None, _, _) => "hour".to_string(),
                        (_, None, _) => "minute".to_string(),
                        (_, _, None) => "second".to_string(),
                        (_, _, Some((_, p))) => format!("fraction{p}"),
                    };
                    l.fail(&format!("time/{}", r.text()), json!({"family": "time", "precision": prec, "leap_second": r.s == Some(60), "stage": f.stage, "kind": f.kind}), json!({"value": r.text(), "message": f.msg}));
                }
                Err(p) => {
                    l.outcome("time/PANIC");
                    l.fail(&format!("time/{}", r.text()), json!({"family": "time", "stage": "any", "kind": "panic", "leap_second": r.s == Some(60)}), json!({"value": r.text(), "message": p}));
                }
            }
        };
        if mi == 0 {
            one(l, PTime { h, mi: None, s: None, f: None });
        }
        one(l, PTime { h, mi: Some(mi), s: None, f: None });
        for s in 0..=60u8 {
            one(l, PTime { h, mi: Some(mi), s: Some(s), f: None });
            for p in 1..=6u8 {
                let top = cal::pow10(p as u32);
                let all = thorough && (p <= 3 || full_frac_times.contains(&(h, mi, s)));
                if all {
                    for f in 0..top {
                        one(l, PTime { h, mi: Some(mi), s: Some(s), f: Some((f, p)) });
                    }
                } else {
                    let mut fs = vec![0, 1, 9, 5 * top / 10, top - 1];
                    fs.sort();
                    fs.dedup();
                    for f in fs {
                        one(l, PTime { h, mi: Some(mi), s: Some(s), f: Some((f, p)) });
                    }
                }
            }
        }
        l.evals(n);
        l.nontrivial_distinct_by_construction(n);
        for (k, v) in counts {
            l.outcome_n(k, v);
        }
    });

    // ---------------- reduced sets ----------------
    let ryears: [u16; 11] = [0, 1, 4, 100, 400, 1900, 1999, 2000, 2023, 2024, 9999];
    let mut rdates: Vec<PDate> = vec![];
    for &y in &ryears {
        rdates.push(PDate { y, m: None, d: None });
        for m in [1u8, 2, 6, 12] {
            rdates.push(PDate { y, m: Some(m), d: None });
        }
        for m in [1u8, 2, 3, 12] {
            let dim = cal::days_in_month(y as i64, m as u32) as u8;
            for d in [1, 28, dim] {
                let r = PDate { y, m: Some(m), d: Some(d) };
                if !rdates.contains(&r) {
                    rdates.push(r);
                }
            }
        }
    }
    let mut rtimes: Vec<PTime> = vec![];
    for h in [0u8, 23] {
        rtimes.push(PTime { h, mi: None, s: None, f: None });
    }
    for (h, mi) in [(0u8, 0u8), (23, 59), (10, 30)] {
        rtimes.push(PTime { h, mi: Some(mi), s: None, f: None });
    }
    for (h, mi, s) in [(0u8, 0u8, 0u8), (23, 59, 59), (23, 59, 60), (10, 30, 59)] {
        rtimes.push(PTime { h, mi: Some(mi), s: Some(s), f: None });
    }
    for p in 1..=6u8 {
        for f in [0, cal::pow10(p as u32) - 1] {
            rtimes.push(PTime { h: 10, mi: Some(30), s: Some(59), f: Some((f, p)) });
        }
    }
    rtimes.push(PTime { h: 23, mi: Some(59), s: Some(60), f: Some((999_999, 6)) });
    rtimes.push(PTime { h: 0, mi: Some(0), s: Some(0), f: Some((0, 6)) });
    rtimes.push(PTime { h: 23, mi: Some(59), s: Some(60), f: Some((5, 1)) });
    let offsets: [Option<i32>; 6] = [None, Some(0), Some(-720), Some(840), Some(330), Some(-210)];

    // ---------------- date-time values ----------------
    {
        let mut cases: Vec<PDateTime> = vec![];
        for &d in &rdates {
            for &o in &offsets {
                cases.push(PDateTime { date: d, time: None, off: o });
                if d.precise() {
                    for &t in &rtimes {
                        cases.push(PDateTime { date: d, time: Some(t), off: o });
                    }
                }
            }
        }
        check.extra("datetime_values", json!(cases.len()));
        check.par_range(cases.len() as u64, |l, i| {
            let r = cases[i as usize];
            let case_id = format!("dt/{}", r.text());
            if !l.want(&case_id) {
                return;
            }
            l.eval();
            l.nontrivial(&case_id);
            let leap = r.time.map(|t| t.s == Some(60)).unwrap_or(false);
            match guard(|| check_dt_value(r, &days)) {
                Ok(Ok(o)) => l.outcome(if leap { "datetime/ok/leap-second" } else { o }),
                Ok(Err(f)) => {
                    l.outcome("datetime/FAIL");
                    l.fail(&case_id, json!({"family": "datetime", "has_time": r.time.is_some(), "has_offset": r.off.is_some(), "leap_second": leap, "stage": f.stage, "kind": f.kind}), json!({"value": r.text(), "message": f.msg}));
                }
                Err(p) => {
                    l.outcome("datetime/PANIC");
                    l.fail(&case_id, json!({"family": "datetime", "stage": "any", "kind": "panic", "leap_second": leap}), json!({"value": r.text(), "message": p}));
                }
            }
        });
        // imprecise date + time has no text form: tally what the constructor does
        let mut l = check.local();
        for &d in rdates.iter().filter(|d| !d.precise()) {
            let case_id = format!("dt-imprecise-date/{}", d.text());
            if !l.want(&case_id) {
                continue;
            }
            l.eval();
            let r = guard(|| DicomDateTime::from_date_and_time(mk_date(d).unwrap(), DicomTime::from_h(1).unwrap()).is_ok());
            match r {
                Ok(true) => l.outcome("datetime/imprecise-date+time/constructor-accepts"),
                Ok(false) => l.outcome("datetime/imprecise-date+time/constructor-rejects"),
                Err(p) => {
                    l.outcome("datetime/PANIC");
                    l.fail(&case_id, json!({"family": "datetime", "stage": "construct", "kind": "panic"}), json!({"message": p}));
                }
            }
        }
    }

    // ---------------- date ranges ----------------
    {
        let n = rdates.len() as u64;
        check.extra("reduced_dates", json!(n));
        check.par_range((n + 1) * (n + 1), |l, i| {
            let (ai, bi) = ((i / (n + 1)) as usize, (i % (n + 1)) as usize);
            let a = rdates.get(ai).copied();
            let b = rdates.get(bi).copied();
            if a.is_none() && b.is_none() {
                return;
            }
            let text = format!("{}-{}", a.map(|x| x.text()).unwrap_or_default(), b.map(|x| x.text()).unwrap_or_default());
            let case_id = format!("dr/{text}");
            if !l.want(&case_id) {
                return;
            }
            l.eval();
            l.nontrivial(&case_id);
            let ws = a.map(|x| x.earliest());
            let we = b.map(|x| x.latest());
            let inverted = matches!((ws, we), (Some(s), Some(e)) if s > e);
            let shape = match (a.is_some(), b.is_some()) {
                (true, true) => "A-B",
                (true, false) => "A-",
                _ => "-B",
            };
            let got = guard(|| parse_date_range(text.as_bytes()).map(|r| (r.start().map(obs_nd), r.end().map(obs_nd))).map_err(|e| e.to_string()));
            let class = |k: &str| json!({"family": "date-range", "shape": shape, "inverted": inverted, "kind": k});
            match got {
                Err(p) => {
                    l.outcome("date-range/PANIC");
                    l.fail(&case_id, class("panic"), json!({"text": text, "message": p}));
                }
                Ok(Ok(g)) => {
                    if g == (ws, we) && !inverted {
                        l.outcome(&format!("date-range/ok/{shape}"));
                    } else {
                        l.outcome("date-range/FAIL");
                        l.fail(&case_id, class(if inverted { "inverted-accepted" } else { "bounds" }), json!({"text": text, "expected": format!("{:?}", (ws, we)), "got": format!("{g:?}")}));
                    }
                }
                Ok(Err(e)) => {
                    if inverted {
                        l.outcome("date-range/ok/inverted-rejected");
                    } else {
                        l.outcome("date-range/FAIL");
                        l.fail(&case_id, class("rejected"), json!({"text": text, "error": e}));
                    }
                }
            }
        });
    }

    // ---------------- time ranges ----------------
    {
        let n = rtimes.len() as u64;
        check.extra("reduced_times", json!(n));
        check.par_range((n + 1) * (n + 1), |l, i| {
            let (ai, bi) = ((i / (n + 1)) as usize, (i % (n + 1)) as usize);
            let a = rtimes.get(ai).copied();
            let b = rtimes.get(bi).copied();
            if a.is_none() && b.is_none() {
                return;
            }
            let text = format!("{}-{}", a.map(|x| x.text()).unwrap_or_default(), b.map(|x| x.text()).unwrap_or_default());
            let case_id = format!("tr/{text}");
            if !l.want(&case_id) {
                return;
            }
            l.eval();
            l.nontrivial(&case_id);
            let ws = a.map(|x| x.earliest());
            let we = b.map(|x| x.latest());
            let inverted = matches!((ws, we), (Some(s), Some(e)) if s > e);
            let leap = a.map(|t| t.s == Some(60)).unwrap_or(false) || b.map(|t| t.s == Some(60)).unwrap_or(false);
            let shape = match (a.is_some(), b.is_some()) {
                (true, true) => "A-B",
                (true, false) => "A-",
                _ => "-B",
            };
            let got = guard(|| {
                parse_time_range(text.as_bytes())
                    .map_err(|e| e.to_string())
                    .and_then(|r| Ok((r.start().map(obs_nt).transpose()?, r.end().map(obs_nt).transpose()?)))
            });
            let class = |k: &str| json!({"family": "time-range", "shape": shape, "inverted": inverted, "leap_second": leap, "kind": k});
            match got {
                Err(p) => {
                    l.outcome("time-range/PANIC");
                    l.fail(&case_id, class("panic"), json!({"text": text, "message": p}));
                }
                Ok(Ok(g)) => {
                    if g == (ws, we) && !inverted {
                        l.outcome(&format!("time-range/ok/{shape}"));
                    } else {
                        l.outcome("time-range/FAIL");
                        l.fail(&case_id, class(if inverted { "inverted-accepted" } else { "bounds" }), json!({"text": text, "expected": format!("{:?}", (ws, we)), "got": format!("{g:?}")}));
                    }
                }
                Ok(Err(e)) => {
                    if inverted {
                        l.outcome("time-range/ok/inverted-rejected");
                    } else {
                        l.outcome("time-range/FAIL");
                        l.fail(&case_id, class("rejected"), json!({"text": text, "error": e}));
                    }
                }
            }
        });
    }

    // ---------------- date-time ranges ----------------
    {
        let mut set: Vec<PDateTime> = vec![];
        let dts_dates = [
            PDate { y: 2024, m: None, d: None },
            PDate { y: 2024, m: Some(2), d: None },
            PDate { y: 2024, m: Some(2), d: Some(29) },
            PDate { y: 1, m: Some(1), d: Some(1) },
            PDate { y: 9999, m: Some(12), d: Some(31) },
            PDate { y: 2023, m: Some(12), d: Some(31) },
            PDate { y: 100, m: None, d: None },
            PDate { y: 1200, m: None, d: None },
        ];
        let dts_times = [
            PTime { h: 10, mi: None, s: None, f: None },
            PTime { h: 10, mi: Some(30), s: None, f: None },
            PTime { h: 10, mi: Some(30), s: Some(59), f: None },
            PTime { h: 23, mi: Some(59), s: Some(60), f: None },
            PTime { h: 10, mi: Some(30), s: Some(59), f: Some((5, 1)) },
            PTime { h: 10, mi: Some(30), s: Some(59), f: Some((123456, 6)) },
            PTime { h: 0, mi: Some(0), s: Some(0), f: Some((0, 6)) },
        ];
        for d in dts_dates {
            for o in offsets {
                set.push(PDateTime { date: d, time: None, off: o });
                if d.precise() {
                    for t in dts_times {
                        set.push(PDateTime { date: d, time: Some(t), off: o });
                    }
                }
            }
        }
        let n = set.len() as u64;
        check.extra("reduced_datetimes_for_ranges", json!(n));
        let strategies = [Strategy::Default, Strategy::Fail, Strategy::Ignore, Strategy::Known];
        check.par_range((n + 1) * (n + 1), |l, i| {
            let (ai, bi) = ((i / (n + 1)) as usize, (i % (n + 1)) as usize);
            let a = set.get(ai).copied();
            let b = set.get(bi).copied();
            if a.is_none() && b.is_none() {
                return;
            }
            let text = format!("{}-{}", a.map(|x| x.text()).unwrap_or_default(), b.map(|x| x.text()).unwrap_or_default());
            let shape = match (a.is_some(), b.is_some()) {
                (true, true) => "A-B",
                (true, false) => "A-",
                _ => "-B",
            };
            let mixed = matches!((a, b), (Some(x), Some(y)) if x.off.is_some() != y.off.is_some());
            let leap = [a, b].iter().flatten().any(|x| x.time.map(|t| t.s == Some(60)).unwrap_or(false));
            // candidate readings of the text
            let tb = text.as_bytes();
            let mut cands: Vec<(Option<PDateTime>, Option<PDateTime>)> = vec![];
            if tb[0] == b'-' {
                if let Some(bb) = cal::parse_dt(&tb[1..]) {
                    cands.push((None, Some(bb)));
                }
            } else if tb[tb.len() - 1] == b'-' {
                if let Some(aa) = cal::parse_dt(&tb[..tb.len() - 1]) {
                    cands.push((Some(aa), None));
                }
            } else {
                for p in 1..tb.len() - 1 {
                    if tb[p] == b'-' {
                        if let (Some(aa), Some(bb)) = (cal::parse_dt(&tb[..p]), cal::parse_dt(&tb[p + 1..])) {
                            cands.push((Some(aa), Some(bb)));
                        }
                    }
                }
            }
            if !cands.contains(&(a, b)) {
                l.check.machinery_error(&format!("reference DT parser does not see the generated reading of {text:?}"));
                return;
            }
            for s in strategies {
                if s == Strategy::Default && cands.iter().any(|(x, y)| matches!((x, y), (Some(x), Some(y)) if x.off.is_some() != y.off.is_some())) {
                    continue; // would consult the host's local time zone
                }
                let case_id = format!("dtr/{s:?}/{text}");
                if !l.want(&case_id) {
                    continue;
                }
                l.eval();
                l.nontrivial(&case_id);
                let expected: Vec<(Option<Bound>, Option<Bound>)> = cands.iter().filter_map(|(x, y)| expect_dt_range(*x, *y, s, &days)).collect();
                let got = guard(|| {
                    let r = match s {
                        Strategy::Default => parse_datetime_range(tb),
                        Strategy::Fail => parse_datetime_range_custom::<FailOnAmbiguousRange>(tb),
                        Strategy::Ignore => parse_datetime_range_custom::<IgnoreTimeZone>(tb),
                        Strategy::Known => parse_datetime_range_custom::<ToKnownTimeZone>(tb),
                    };
                    r.map_err(|e| e.to_string()).and_then(|r| obs_dtrange(&r))
                });
                let class = |k: &str| json!({"family": "datetime-range", "shape": shape, "strategy": format!("{s:?}"), "mixed_offsets": mixed, "leap_second": leap, "readings": cands.len(), "kind": k});
                match got {
                    Err(p) => {
                        l.outcome("datetime-range/PANIC");
                        l.fail(&case_id, class("panic"), json!({"text": text, "message": p}));
                    }
                    Ok(Ok(g)) => {
                        if expected.contains(&g) {
                            l.outcome(&format!("datetime-range/ok/{shape}{}", if mixed { "/mixed" } else { "" }));
                        } else {
                            l.outcome("datetime-range/FAIL");
                            l.fail(&case_id, class(if expected.is_empty() { "accepted-unexpectedly" } else { "bounds" }), json!({"text": text, "expected_any_of": format!("{expected:?}"), "got": format!("{g:?}")}));
                        }
                    }
                    Ok(Err(e)) => {
                        if expected.is_empty() {
                            l.outcome(if mixed && s == Strategy::Fail { "datetime-range/ok/mixed-rejected" } else { "datetime-range/ok/inverted-rejected" });
                        } else {
                            l.outcome("datetime-range/FAIL");
                            l.fail(&case_id, class("rejected"), json!({"text": text, "error": e, "expected_any_of": format!("{expected:?}")}));
                        }
                    }
                }
            }
        });
    }
    check.finish();
}
