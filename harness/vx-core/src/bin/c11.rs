//! C11 — numeric value conversions are exact or fail; extend/truncate follow a list model.
//!
//! Part A (conversions): every source value of a boundary universe (all 16 variants) x every target
//! {to_int, to_multi_int} x {u8,i8,u16,i16,u32,i32,u64,i64} + {to_float32, to_multi_float32,
//! to_float64, to_multi_float64} x entry points {PrimitiveValue, Value, DataElement}; all 2^8 / 2^16
//! values of the U8 / I16 / U16 variants through every target. Oracle: i128 range arithmetic, own
//! decimal recognisers, bit-level integer->float rounding (vx_core::num).
//! Part B (histories, explicit-state BFS): states = (variant, items) of a list model; operations =
//! extend_{str,u16,i16,i32,u32,f32,f64} with 1 or 2 items, truncate(0|1|2|5); every transition is
//! executed on a real PrimitiveValue rebuilt from its root by re-applying the whole history, and the
//! observable (variant, items, Ok/Err) is compared with the model after every step.
use dicom_core::header::EmptyObject;
use dicom_core::value::{DicomDate, DicomDateTime, DicomTime, InMemFragment, PrimitiveValue};
use dicom_core::{DataElement, DicomValue, Tag, VR};
use std::collections::HashSet;
use std::sync::Mutex;
use vx_core::num::{self, IntTy, INT_TYS};
use vx_kit::{guard, hash_of, json, Check, Level, Local};

// =================================================================================================
// Part A — conversions
#[derive(Clone, Debug)]
enum Src {
    Empty,
    Str(String),
    Strs(Vec<String>),
    Int(IVar, Vec<i128>),
    F32(Vec<f32>),
    F64(Vec<f64>),
    Other(&'static str, usize),
}

#[derive(Clone, Copy, Debug, PartialEq, Eq, Hash)]
enum IVar {
    U8,
    I16,
    U16,
    I32,
    U32,
    I64,
    U64,
}
impl IVar {
    fn ty(self) -> IntTy {
        match self {
            IVar::U8 => IntTy::U8,
            IVar::I16 => IntTy::I16,
            IVar::U16 => IntTy::U16,
            IVar::I32 => IntTy::I32,
            IVar::U32 => IntTy::U32,
            IVar::I64 => IntTy::I64,
            IVar::U64 => IntTy::U64,
        }
    }
    fn name(self) -> &'static str {
        match self {
            IVar::U8 => "U8",
            IVar::I16 => "I16",
            IVar::U16 => "U16",
            IVar::I32 => "I32",
            IVar::U32 => "U32",
            IVar::I64 => "I64",
            IVar::U64 => "U64",
        }
    }
}
const IVARS: [IVar; 7] = [IVar::U8, IVar::I16, IVar::U16, IVar::I32, IVar::U32, IVar::I64, IVar::U64];

fn int_value(v: IVar, items: &[i128]) -> PrimitiveValue {
    match v {
        IVar::U8 => PrimitiveValue::U8(items.iter().map(|&n| n as u8).collect()),
        IVar::I16 => PrimitiveValue::I16(items.iter().map(|&n| n as i16).collect()),
        IVar::U16 => PrimitiveValue::U16(items.iter().map(|&n| n as u16).collect()),
        IVar::I32 => PrimitiveValue::I32(items.iter().map(|&n| n as i32).collect()),
        IVar::U32 => PrimitiveValue::U32(items.iter().map(|&n| n as u32).collect()),
        IVar::I64 => PrimitiveValue::I64(items.iter().map(|&n| n as i64).collect()),
        IVar::U64 => PrimitiveValue::U64(items.iter().map(|&n| n as u64).collect()),
    }
}

fn other_value(kind: &str, n: usize) -> PrimitiveValue {
    match kind {
        "Tags" => PrimitiveValue::Tags((0..n).map(|i| Tag(0x0008, 0x0005 + i as u16)).collect()),
        "Date" => PrimitiveValue::Date((0..n).map(|i| DicomDate::from_y(2024 + i as u16).unwrap()).collect()),
        "Time" => PrimitiveValue::Time((0..n).map(|i| DicomTime::from_h(10 + i as u8).unwrap()).collect()),
        _ => PrimitiveValue::DateTime((0..n).map(|i| DicomDateTime::from_date(DicomDate::from_y(2024 + i as u16).unwrap())).collect()),
    }
}

impl Src {
    fn build(&self) -> PrimitiveValue {
        match self {
            Src::Empty => PrimitiveValue::Empty,
            Src::Str(s) => PrimitiveValue::Str(s.clone()),
            Src::Strs(v) => PrimitiveValue::Strs(v.iter().cloned().collect()),
            Src::Int(v, items) => int_value(*v, items),
            Src::F32(v) => PrimitiveValue::F32(v.iter().copied().collect()),
            Src::F64(v) => PrimitiveValue::F64(v.iter().copied().collect()),
            Src::Other(k, n) => other_value(k, *n),
        }
    }
    fn variant(&self) -> String {
        match self {
            Src::Empty => "Empty".into(),
            Src::Str(_) => "Str".into(),
            Src::Strs(_) => "Strs".into(),
            Src::Int(v, _) => v.name().into(),
            Src::F32(_) => "F32".into(),
            Src::F64(_) => "F64".into(),
            Src::Other(k, _) => k.to_string(),
        }
    }
    fn n_items(&self) -> usize {
        match self {
            Src::Empty => 0,
            Src::Str(_) => 1,
            Src::Strs(v) => v.len(),
            Src::Int(_, v) => v.len(),
            Src::F32(v) => v.len(),
            Src::F64(v) => v.len(),
            Src::Other(_, n) => *n,
        }
    }
    fn describe(&self) -> String {
        match self {
            Src::F32(v) => format!("F32({:?})", v),
            Src::F64(v) => format!("F64({:?})", v),
            other => format!("{other:?}"),
        }
    }
}

#[derive(Clone, Copy, Debug, PartialEq)]
enum Target {
    Int(IntTy),
    MultiInt(IntTy),
    F32,
    MultiF32,
    F64,
    MultiF64,
}
impl Target {
    fn name(self) -> String {
        match self {
            Target::Int(t) => format!("to_int<{}>", t.name()),
            Target::MultiInt(t) => format!("to_multi_int<{}>", t.name()),
            Target::F32 => "to_float32".into(),
            Target::MultiF32 => "to_multi_float32".into(),
            Target::F64 => "to_float64".into(),
            Target::MultiF64 => "to_multi_float64".into(),
        }
    }
    fn method(self) -> &'static str {
        match self {
            Target::Int(_) => "to_int",
            Target::MultiInt(_) => "to_multi_int",
            Target::F32 => "to_float32",
            Target::MultiF32 => "to_multi_float32",
            Target::F64 => "to_float64",
            Target::MultiF64 => "to_multi_float64",
        }
    }
    fn multi(self) -> bool {
        matches!(self, Target::MultiInt(_) | Target::MultiF32 | Target::MultiF64)
    }
}

#[derive(Debug)]
enum Got {
    Int(Result<i128, String>),
    Ints(Result<Vec<i128>, String>),
    F32(Result<f32, String>),
    F32s(Result<Vec<f32>, String>),
    F64(Result<f64, String>),
    F64s(Result<Vec<f64>, String>),
}

macro_rules! one {
    ($x:expr, $ty:ty) => {
        Got::Int($x.to_int::<$ty>().map(|v| v as i128).map_err(|e| e.to_string()))
    };
}
macro_rules! many {
    ($x:expr, $ty:ty) => {
        Got::Ints($x.to_multi_int::<$ty>().map(|v| v.into_iter().map(|a| a as i128).collect()).map_err(|e| e.to_string()))
    };
}
macro_rules! run_target {
    ($x:expr, $t:expr) => {
        match $t {
            Target::Int(IntTy::U8) => one!($x, u8),
            Target::Int(IntTy::I8) => one!($x, i8),
            Target::Int(IntTy::U16) => one!($x, u16),
            Target::Int(IntTy::I16) => one!($x, i16),
            Target::Int(IntTy::U32) => one!($x, u32),
            Target::Int(IntTy::I32) => one!($x, i32),
            Target::Int(IntTy::U64) => one!($x, u64),
            Target::Int(IntTy::I64) => one!($x, i64),
            Target::MultiInt(IntTy::U8) => many!($x, u8),
            Target::MultiInt(IntTy::I8) => many!($x, i8),
            Target::MultiInt(IntTy::U16) => many!($x, u16),
            Target::MultiInt(IntTy::I16) => many!($x, i16),
            Target::MultiInt(IntTy::U32) => many!($x, u32),
            Target::MultiInt(IntTy::I32) => many!($x, i32),
            Target::MultiInt(IntTy::U64) => many!($x, u64),
            Target::MultiInt(IntTy::I64) => many!($x, i64),
            Target::F32 => Got::F32($x.to_float32().map_err(|e| e.to_string())),
            Target::MultiF32 => Got::F32s($x.to_multi_float32().map_err(|e| e.to_string())),
            Target::F64 => Got::F64($x.to_float64().map_err(|e| e.to_string())),
            Target::MultiF64 => Got::F64s($x.to_multi_float64().map_err(|e| e.to_string())),
        }
    };
}

/// What the oracle knows about one stored item.
#[derive(Clone, Copy, Debug)]
enum Item {
    /// an exact integer
    Num(i128),
    /// a decimal text with a fraction, value exactly representable in f64
    Dec(f64),
    /// text that is no number
    NotNumber,
    F32(f32),
    F64(f64),
}

fn text_item(s: &str) -> Item {
    let t = num::trim_sp_nul(s);
    if let Some(n) = num::parse_int_text(t) {
        return Item::Num(n);
    }
    match num::parse_simple_decimal(t) {
        Some(x) => Item::Dec(x),
        None => Item::NotNumber,
    }
}

fn items_of(src: &Src) -> Option<Vec<Item>> {
    Some(match src {
        Src::Empty => vec![],
        Src::Str(s) => vec![text_item(s)],
        Src::Strs(v) => v.iter().map(|s| text_item(s)).collect(),
        Src::Int(_, v) => v.iter().map(|&n| Item::Num(n)).collect(),
        Src::F32(v) => v.iter().map(|&x| Item::F32(x)).collect(),
        Src::F64(v) => v.iter().map(|&x| Item::F64(x)).collect(),
        Src::Other(..) => return None,
    })
}

/// integer expectation for one item: Must(n) / MustErr / ErrOrExact(n) (float sources: the docs say the
/// conversion is not enabled, the statement would also be satisfied by the exact number)
enum IntExp {
    Must(i128),
    MustErr,
    ErrOr(i128),
}
fn int_exp(it: Item, ty: IntTy) -> IntExp {
    match it {
        Item::Num(n) => {
            if ty.fits(n) {
                IntExp::Must(n)
            } else {
                IntExp::MustErr
            }
        }
        Item::Dec(_) | Item::NotNumber => IntExp::MustErr,
        Item::F32(x) => float_as_int(x as f64, ty),
        Item::F64(x) => float_as_int(x, ty),
    }
}
fn float_as_int(x: f64, ty: IntTy) -> IntExp {
    if x.is_finite() && x.fract() == 0.0 && x.abs() < 1e30 {
        let n = x as i128;
        if ty.fits(n) {
            return IntExp::ErrOr(n);
        }
    }
    IntExp::MustErr
}

fn same_f32(a: f32, b: f32) -> bool {
    (a.is_nan() && b.is_nan()) || a.to_bits() == b.to_bits() || (a == 0.0 && b == 0.0)
}
fn same_f64(a: f64, b: f64) -> bool {
    (a.is_nan() && b.is_nan()) || a.to_bits() == b.to_bits() || (a == 0.0 && b == 0.0)
}

/// float expectation for one item: Some((value, err_also_ok)) or None = must be Err
fn f32_exp(it: Item) -> Option<(f32, bool)> {
    match it {
        Item::Num(n) => Some((num::nearest_f32(n), false)),
        Item::Dec(x) => Some((num::f64_to_f32_nearest(x), false)),
        Item::NotNumber => None,
        Item::F32(x) => Some((x, false)),
        // finite doubles beyond the f32 range: saturation to infinity and an error both respect the docs
        Item::F64(x) => Some((num::f64_to_f32_nearest(x), x.is_finite() && !num::f64_fits_f32(x))),
    }
}
fn f64_exp(it: Item) -> Option<f64> {
    match it {
        Item::Num(n) => Some(num::nearest_f64(n)),
        Item::Dec(x) => Some(x),
        Item::NotNumber => None,
        Item::F32(x) => Some(x as f64), // widening is exact
        Item::F64(x) => Some(x),
    }
}

/// Ok(outcome label) or Err(explanation)
fn judge(src: &Src, t: Target, got: &Got) -> Result<String, String> {
    let items = items_of(src);
    let unsupported_source_for_int = matches!(src, Src::F32(_) | Src::F64(_));
    let Some(items) = items else {
        // Tags / Date / Time / DateTime: no numeric conversion is documented
        let n = src.n_items();
        return match got {
            Got::Int(Err(_)) | Got::Ints(Err(_)) | Got::F32(Err(_)) | Got::F32s(Err(_)) | Got::F64(Err(_)) | Got::F64s(Err(_)) => Ok("err/non-numeric-variant".into()),
            Got::Ints(Ok(v)) if n == 0 && v.is_empty() => Ok("ok/empty-list/non-numeric-variant".into()),
            Got::F32s(Ok(v)) if n == 0 && v.is_empty() => Ok("ok/empty-list/non-numeric-variant".into()),
            Got::F64s(Ok(v)) if n == 0 && v.is_empty() => Ok("ok/empty-list/non-numeric-variant".into()),
            other => Err(format!("non-numeric variant converted: {other:?}")),
        };
    };
    match (t, got) {
        (Target::Int(ty), Got::Int(g)) => match items.first() {
            None => match g {
                Err(_) => Ok("err/no-first-item".into()),
                Ok(v) => Err(format!("no items but Ok({v})")),
            },
            Some(&it) => match (int_exp(it, ty), g) {
                (IntExp::Must(n), Ok(v)) if *v == n => Ok("ok/exact".into()),
                (IntExp::Must(n), other) => Err(format!("expected Ok({n}), got {other:?}")),
                (IntExp::MustErr, Err(_)) => Ok(if matches!(it, Item::Num(_)) { "err/not-representable".into() } else { "err/not-an-integer".into() }),
                (IntExp::MustErr, Ok(v)) => Err(format!("expected Err, got Ok({v})")),
                (IntExp::ErrOr(_), Err(_)) => Ok("err/float-source-not-enabled".into()),
                (IntExp::ErrOr(n), Ok(v)) if *v == n => Ok("ok/exact-from-float".into()),
                (IntExp::ErrOr(n), Ok(v)) => Err(format!("expected Err or Ok({n}), got Ok({v})")),
            },
        },
        (Target::MultiInt(ty), Got::Ints(g)) => {
            let exps: Vec<IntExp> = items.iter().map(|&it| int_exp(it, ty)).collect();
            if unsupported_source_for_int {
                return match g {
                    Err(_) => Ok("err/float-source-not-enabled".into()),
                    Ok(v) => {
                        let fine = v.len() == exps.len() && v.iter().zip(exps.iter()).all(|(a, e)| matches!(e, IntExp::ErrOr(n) if n == a));
                        if fine {
                            Ok("ok/exact-from-float".into())
                        } else {
                            Err(format!("float source converted to {v:?}"))
                        }
                    }
                };
            }
            let all: Option<Vec<i128>> = exps.iter().map(|e| if let IntExp::Must(n) = e { Some(*n) } else { None }).collect();
            match (all, g) {
                (Some(w), Ok(v)) if *v == w => Ok(if w.is_empty() { "ok/empty-list".into() } else { "ok/exact-list".into() }),
                (Some(w), other) => Err(format!("expected Ok({w:?}), got {other:?}")),
                (None, Err(_)) => Ok("err/some-item-not-convertible".into()),
                (None, Ok(v)) => Err(format!("expected Err, got Ok({v:?})")),
            }
        }
        (Target::F32, Got::F32(g)) => match items.first() {
            None => match g {
                Err(_) => Ok("err/no-first-item".into()),
                Ok(v) => Err(format!("no items but Ok({v})")),
            },
            Some(&it) => match (f32_exp(it), g) {
                (Some((w, _)), Ok(v)) if same_f32(w, *v) => Ok("ok/float".into()),
                (Some((_, true)), Err(_)) => Ok("err/float-out-of-range".into()),
                (Some((w, _)), other) => Err(format!("expected Ok({w:?}), got {other:?}")),
                (None, Err(_)) => Ok("err/not-a-number".into()),
                (None, Ok(v)) => Err(format!("expected Err, got Ok({v})")),
            },
        },
        (Target::MultiF32, Got::F32s(g)) => {
            let exps: Vec<Option<(f32, bool)>> = items.iter().map(|&it| f32_exp(it)).collect();
            if exps.iter().any(|e| e.is_none()) {
                return match g {
                    Err(_) => Ok("err/some-item-not-convertible".into()),
                    Ok(v) => Err(format!("expected Err, got Ok({v:?})")),
                };
            }
            let may_err = exps.iter().any(|e| e.unwrap().1);
            match g {
                Ok(v) if v.len() == exps.len() && v.iter().zip(exps.iter()).all(|(a, e)| same_f32(*a, e.unwrap().0)) => Ok(if v.is_empty() { "ok/empty-list".into() } else { "ok/float-list".into() }),
                Err(_) if may_err => Ok("err/float-out-of-range".into()),
                other => Err(format!("expected Ok({:?}), got {other:?}", exps.iter().map(|e| e.unwrap().0).collect::<Vec<_>>())),
            }
        }
        (Target::F64, Got::F64(g)) => match items.first() {
            None => match g {
                Err(_) => Ok("err/no-first-item".into()),
                Ok(v) => Err(format!("no items but Ok({v})")),
            },
            Some(&it) => match (f64_exp(it), g) {
                (Some(w), Ok(v)) if same_f64(w, *v) => Ok("ok/float".into()),
                (Some(w), other) => Err(format!("expected Ok({w:?}), got {other:?}")),
                (None, Err(_)) => Ok("err/not-a-number".into()),
                (None, Ok(v)) => Err(format!("expected Err, got Ok({v})")),
            },
        },
        (Target::MultiF64, Got::F64s(g)) => {
            let exps: Vec<Option<f64>> = items.iter().map(|&it| f64_exp(it)).collect();
            if exps.iter().any(|e| e.is_none()) {
                return match g {
                    Err(_) => Ok("err/some-item-not-convertible".into()),
                    Ok(v) => Err(format!("expected Err, got Ok({v:?})")),
                };
            }
            match g {
                Ok(v) if v.len() == exps.len() && v.iter().zip(exps.iter()).all(|(a, e)| same_f64(*a, e.unwrap())) => Ok(if v.is_empty() { "ok/empty-list".into() } else { "ok/float-list".into() }),
                other => Err(format!("expected Ok({:?}), got {other:?}", exps.iter().map(|e| e.unwrap()).collect::<Vec<_>>())),
            }
        }
        _ => Err("harness: target/got mismatch".into()),
    }
}

fn all_targets() -> Vec<Target> {
    let mut v = vec![];
    for t in INT_TYS {
        v.push(Target::Int(t));
        v.push(Target::MultiInt(t));
    }
    v.extend([Target::F32, Target::MultiF32, Target::F64, Target::MultiF64]);
    v
}

const ENTRIES: [&str; 3] = ["PrimitiveValue", "Value", "DataElement"];

fn run_conv(l: &mut Local, src_id: &str, src: &Src, entries: &[usize], targets: &[Target]) {
    let pv = src.build();
    let val: DicomValue<EmptyObject, InMemFragment> = DicomValue::Primitive(pv.clone());
    let elem: DataElement<EmptyObject, InMemFragment> = DataElement::new(Tag(0x0009, 0x1001), VR::UN, pv.clone());
    for &e in entries {
        for &t in targets {
            let case_id = format!("conv/{src_id}/{}/{}", ENTRIES[e], t.name());
            if l.check.replaying() && !l.want(&case_id) {
                continue;
            }
            l.eval();
            let got = guard(|| match e {
                0 => run_target!(pv, t),
                1 => run_target!(val, t),
                _ => run_target!(elem, t),
            });
            let class = |kind: &str| json!({"family": "conversion", "variant": src.variant(), "items": src.n_items().min(3), "method": t.method(), "entry": ENTRIES[e], "kind": kind});
            match got {
                Err(p) => {
                    l.outcome("conv/PANIC");
                    l.fail(&case_id, class("panic"), json!({"source": src.describe(), "target": t.name(), "message": p}));
                }
                Ok(g) => match judge(src, t, &g) {
                    Ok(label) => l.outcome_with(&format!("conv/{}/{label}", if t.multi() { "multi" } else { "single" }), || json!({"source": src.describe(), "target": t.name(), "got": format!("{g:?}")})),
                    Err(why) => {
                        l.outcome("conv/MISMATCH");
                        let kind = match &g {
                            Got::Int(Ok(_)) | Got::Ints(Ok(_)) | Got::F32(Ok(_)) | Got::F32s(Ok(_)) | Got::F64(Ok(_)) | Got::F64s(Ok(_)) => "wrong-ok",
                            _ => "unexpected-err",
                        };
                        l.fail(&case_id, class(kind), json!({"source": src.describe(), "target": t.name(), "got": format!("{g:?}"), "message": why}));
                    }
                },
            }
        }
    }
}

fn conversion_sources() -> Vec<(String, Src)> {
    let mut out: Vec<(String, Src)> = vec![("empty".into(), Src::Empty)];
    let texts: Vec<&str> = vec![
        "0", " 7 ", "7\0", "-1", "256", "65536", "4294967296", "9223372036854775808", "1.5", "", "x", "+5", "-128", "127", "255", "-129", "-32768", "32767", "65535", "-32769",
        "-2147483648", "2147483647", "4294967295", "-2147483649", "-9223372036854775808", "9223372036854775807", "-9223372036854775809", "18446744073709551615", "18446744073709551616",
        "\0 42 \0", "16777217", "-6.75", "0.25", " ", "1 2", "\u{663}", "007",
    ];
    for (i, t) in texts.iter().enumerate() {
        out.push((format!("str{i}"), Src::Str(t.to_string())));
        out.push((format!("strs1-{i}"), Src::Strs(vec![t.to_string()])));
    }
    out.push(("strs0".into(), Src::Strs(vec![])));
    for (i, a) in texts.iter().enumerate() {
        for (j, b) in texts.iter().enumerate() {
            out.push((format!("strs2-{i}-{j}"), Src::Strs(vec![a.to_string(), b.to_string()])));
        }
    }
    for v in IVARS {
        let ty = v.ty();
        let (mn, mx) = (ty.min(), ty.max());
        let mut contents: Vec<Vec<i128>> = vec![vec![], vec![0], vec![mx], vec![1, mx], vec![mn, 0, mx], vec![mx, 1], vec![127], vec![128], vec![255], vec![256]];
        if ty.signed() {
            contents.extend([vec![mn], vec![-1], vec![-1, 1], vec![-128], vec![-129]]);
        }
        for big in [32767i128, 32768, 65535, 65536, 2147483647, 2147483648, 4294967295, 4294967296, 9223372036854775807, 9223372036854775808, 16777217, 9007199254740993] {
            if ty.fits(big) {
                contents.push(vec![big]);
            }
            if ty.fits(-big - 1) {
                contents.push(vec![-big - 1]);
            }
        }
        contents.retain(|c| c.iter().all(|&n| ty.fits(n)));
        contents.sort();
        contents.dedup();
        for (i, c) in contents.into_iter().enumerate() {
            out.push((format!("{}-{i}", v.name()), Src::Int(v, c)));
        }
    }
    let f32s: Vec<Vec<f32>> = vec![
        vec![], vec![0.0], vec![-0.0], vec![1.5], vec![1.0], vec![-1.0], vec![255.0], vec![256.0], vec![f32::MAX], vec![f32::MIN], vec![f32::MIN_POSITIVE], vec![f32::NAN], vec![f32::INFINITY], vec![f32::NEG_INFINITY],
        vec![1.0, f32::MAX], vec![16777216.0, 3.0], vec![0.1], vec![4294967296.0], vec![-2147483648.0],
    ];
    for (i, c) in f32s.into_iter().enumerate() {
        out.push((format!("F32-{i}"), Src::F32(c)));
    }
    let f64s: Vec<Vec<f64>> = vec![
        vec![], vec![0.0], vec![-0.0], vec![1.5], vec![1.0], vec![-1.0], vec![255.0], vec![256.0], vec![f64::MAX], vec![f64::MIN], vec![f64::MIN_POSITIVE], vec![f64::NAN], vec![f64::INFINITY], vec![f64::NEG_INFINITY],
        vec![1.0, 2.5], vec![1e39], vec![-1e39], vec![3.4028235677973366e38], vec![3.4028234663852886e38], vec![1e-46], vec![1e-45], vec![16777217.0], vec![0.1], vec![9007199254740992.0], vec![1.0, 1e39],
        vec![18446744073709551616.0], vec![-9223372036854775808.0],
    ];
    for (i, c) in f64s.into_iter().enumerate() {
        out.push((format!("F64-{i}"), Src::F64(c)));
    }
    for k in ["Tags", "Date", "Time", "DateTime"] {
        for n in 0..=2 {
            out.push((format!("{k}-{n}"), Src::Other(k, n)));
        }
    }
    out
}

// =================================================================================================
// Part B — histories
#[derive(Clone, Debug, PartialEq, Eq, Hash)]
enum TextItem {
    Lit(String),
    /// the text of an appended float: any decimal text whose value is exactly this number
    F32Text(u32),
    F64Text(u64),
}

#[derive(Clone, Debug, PartialEq, Eq, Hash)]
enum M {
    Empty,
    Str(String),
    Strs(Vec<TextItem>),
    Int(IVar, Vec<i128>),
    F32(Vec<u32>),
    F64(Vec<u64>),
    /// Tags / Date / Time / DateTime with their items in a printable form
    Other(&'static str, Vec<String>),
}

impl M {
    fn variant(&self) -> &'static str {
        match self {
            M::Empty => "Empty",
            M::Str(_) => "Str",
            M::Strs(_) => "Strs",
            M::Int(v, _) => v.name(),
            M::F32(_) => "F32",
            M::F64(_) => "F64",
            M::Other(k, _) => k,
        }
    }
}

#[derive(Clone, Debug)]
enum Num {
    I(i128),
    F32(f32),
    F64(f64),
}

#[derive(Clone, Debug)]
enum Op {
    ExtStr(Vec<&'static str>),
    ExtU16(Vec<u16>),
    ExtI16(Vec<i16>),
    ExtI32(Vec<i32>),
    ExtU32(Vec<u32>),
    ExtF32(Vec<f32>),
    ExtF64(Vec<f64>),
    Trunc(usize),
}

impl Op {
    fn kind(&self) -> &'static str {
        match self {
            Op::ExtStr(_) => "extend_str",
            Op::ExtU16(_) => "extend_u16",
            Op::ExtI16(_) => "extend_i16",
            Op::ExtI32(_) => "extend_i32",
            Op::ExtU32(_) => "extend_u32",
            Op::ExtF32(_) => "extend_f32",
            Op::ExtF64(_) => "extend_f64",
            Op::Trunc(_) => "truncate",
        }
    }
    /// (variant created from Empty, numbers)
    fn nums(&self) -> Option<(&'static str, Vec<Num>)> {
        Some(match self {
            Op::ExtU16(v) => ("U16", v.iter().map(|&n| Num::I(n as i128)).collect()),
            Op::ExtI16(v) => ("I16", v.iter().map(|&n| Num::I(n as i128)).collect()),
            Op::ExtI32(v) => ("I32", v.iter().map(|&n| Num::I(n as i128)).collect()),
            Op::ExtU32(v) => ("U32", v.iter().map(|&n| Num::I(n as i128)).collect()),
            Op::ExtF32(v) => ("F32", v.iter().map(|&n| Num::F32(n)).collect()),
            Op::ExtF64(v) => ("F64", v.iter().map(|&n| Num::F64(n)).collect()),
            _ => return None,
        })
    }
    fn apply_real(&self, v: &mut PrimitiveValue) -> bool {
        match self {
            Op::ExtStr(s) => v.extend_str(s.iter().copied()).is_ok(),
            Op::ExtU16(n) => v.extend_u16(n.iter().copied()).is_ok(),
            Op::ExtI16(n) => v.extend_i16(n.iter().copied()).is_ok(),
            Op::ExtI32(n) => v.extend_i32(n.iter().copied()).is_ok(),
            Op::ExtU32(n) => v.extend_u32(n.iter().copied()).is_ok(),
            Op::ExtF32(n) => v.extend_f32(n.iter().copied()).is_ok(),
            Op::ExtF64(n) => v.extend_f64(n.iter().copied()).is_ok(),
            Op::Trunc(k) => {
                v.truncate(*k);
                true
            }
        }
    }
}

fn ivar_by_name(s: &str) -> Option<IVar> {
    IVARS.iter().copied().find(|v| v.name() == s)
}

/// The list model, written from the method docs: returns (accepted, next state).
fn model_step(m: &M, op: &Op) -> (bool, M) {
    match op {
        Op::Trunc(k) => (
            true,
            match m {
                M::Empty => M::Empty,
                // a single string is one value item ("elements are counted by the number of individual
                // value items"): limit 0 removes it, any other limit keeps it
                M::Str(_) if *k == 0 => M::Empty,
                M::Str(_) => m.clone(),
                M::Strs(v) => M::Strs(v.iter().take(*k).cloned().collect()),
                M::Int(t, v) => M::Int(*t, v.iter().take(*k).cloned().collect()),
                M::F32(v) => M::F32(v.iter().take(*k).cloned().collect()),
                M::F64(v) => M::F64(v.iter().take(*k).cloned().collect()),
                M::Other(n, v) => M::Other(*n, v.iter().take(*k).cloned().collect()),
            },
        ),
        Op::ExtStr(s) => {
            let add = s.iter().map(|x| TextItem::Lit(x.to_string()));
            match m {
                M::Empty => (true, M::Strs(add.collect())),
                M::Strs(v) => (true, M::Strs(v.iter().cloned().chain(add).collect())),
                M::Str(x) => (true, M::Strs(std::iter::once(TextItem::Lit(x.clone())).chain(add).collect())),
                _ => (false, m.clone()),
            }
        }
        _ => {
            let (from_empty, nums) = op.nums().unwrap();
            let as_text = |n: &Num| match n {
                Num::I(i) => TextItem::Lit(i.to_string()),
                Num::F32(x) => TextItem::F32Text(x.to_bits()),
                Num::F64(x) => TextItem::F64Text(x.to_bits()),
            };
            let to_int = |t: IVar, n: &Num| match n {
                Num::I(i) => t.ty().wrap(*i),
                Num::F32(x) => t.ty().sat_from_f64(*x as f64),
                Num::F64(x) => t.ty().sat_from_f64(*x),
            };
            let to_f32 = |n: &Num| match n {
                Num::I(i) => num::nearest_f32(*i).to_bits(),
                Num::F32(x) => x.to_bits(),
                Num::F64(x) => num::f64_to_f32_nearest(*x).to_bits(),
            };
            let to_f64 = |n: &Num| match n {
                Num::I(i) => num::nearest_f64(*i).to_bits(),
                Num::F32(x) => (*x as f64).to_bits(),
                Num::F64(x) => x.to_bits(),
            };
            match m {
                M::Empty => (
                    true,
                    match from_empty {
                        "F32" => M::F32(nums.iter().map(to_f32).collect()),
                        "F64" => M::F64(nums.iter().map(to_f64).collect()),
                        name => {
                            let t = ivar_by_name(name).unwrap();
                            M::Int(t, nums.iter().map(|n| to_int(t, n)).collect())
                        }
                    },
                ),
                M::Str(x) => (true, M::Strs(std::iter::once(TextItem::Lit(x.clone())).chain(nums.iter().map(as_text)).collect())),
                M::Strs(v) => (true, M::Strs(v.iter().cloned().chain(nums.iter().map(as_text)).collect())),
                M::Int(t, v) => (true, M::Int(*t, v.iter().cloned().chain(nums.iter().map(|n| to_int(*t, n))).collect())),
                M::F32(v) => (true, M::F32(v.iter().cloned().chain(nums.iter().map(to_f32)).collect())),
                M::F64(v) => (true, M::F64(v.iter().cloned().chain(nums.iter().map(to_f64)).collect())),
                M::Other(..) => (false, m.clone()),
            }
        }
    }
}

/// observable state of a real value
#[derive(Debug, PartialEq)]
enum Obs {
    Empty,
    Str(String),
    Strs(Vec<String>),
    Int(IVar, Vec<i128>),
    F32(Vec<u32>),
    F64(Vec<u64>),
    Other(&'static str, Vec<String>),
}

fn observe(v: &PrimitiveValue) -> Obs {
    match v {
        PrimitiveValue::Empty => Obs::Empty,
        PrimitiveValue::Str(s) => Obs::Str(s.clone()),
        PrimitiveValue::Strs(s) => Obs::Strs(s.iter().cloned().collect()),
        PrimitiveValue::U8(c) => Obs::Int(IVar::U8, c.iter().map(|&x| x as i128).collect()),
        PrimitiveValue::I16(c) => Obs::Int(IVar::I16, c.iter().map(|&x| x as i128).collect()),
        PrimitiveValue::U16(c) => Obs::Int(IVar::U16, c.iter().map(|&x| x as i128).collect()),
        PrimitiveValue::I32(c) => Obs::Int(IVar::I32, c.iter().map(|&x| x as i128).collect()),
        PrimitiveValue::U32(c) => Obs::Int(IVar::U32, c.iter().map(|&x| x as i128).collect()),
        PrimitiveValue::I64(c) => Obs::Int(IVar::I64, c.iter().map(|&x| x as i128).collect()),
        PrimitiveValue::U64(c) => Obs::Int(IVar::U64, c.iter().map(|&x| x as i128).collect()),
        PrimitiveValue::F32(c) => Obs::F32(c.iter().map(|x| x.to_bits()).collect()),
        PrimitiveValue::F64(c) => Obs::F64(c.iter().map(|x| x.to_bits()).collect()),
        PrimitiveValue::Tags(c) => Obs::Other("Tags", c.iter().map(|t| format!("{:04X}{:04X}", t.0, t.1)).collect()),
        PrimitiveValue::Date(c) => Obs::Other("Date", c.iter().map(|d| d.to_encoded()).collect()),
        PrimitiveValue::Time(c) => Obs::Other("Time", c.iter().map(|d| d.to_encoded()).collect()),
        PrimitiveValue::DateTime(c) => Obs::Other("DateTime", c.iter().map(|d| d.to_encoded()).collect()),
    }
}

fn text_matches(want: &TextItem, got: &str) -> bool {
    match want {
        TextItem::Lit(s) => s == got,
        TextItem::F32Text(b) => {
            let x = f32::from_bits(*b);
            // the text must denote exactly x (x as f64 is exact)
            num::parse_int_text(got).map(|n| num::nearest_f64(n) == x as f64 && num::nearest_f32(n) == x).or_else(|| num::parse_simple_decimal(got).map(|v| v == x as f64)).unwrap_or(false)
        }
        TextItem::F64Text(b) => {
            let x = f64::from_bits(*b);
            num::parse_int_text(got).map(|n| num::nearest_f64(n) == x).or_else(|| num::parse_simple_decimal(got).map(|v| v == x)).unwrap_or(false)
        }
    }
}

fn state_matches(m: &M, o: &Obs) -> bool {
    match (m, o) {
        (M::Empty, Obs::Empty) => true,
        (M::Str(a), Obs::Str(b)) => a == b,
        (M::Strs(a), Obs::Strs(b)) => a.len() == b.len() && a.iter().zip(b).all(|(w, g)| text_matches(w, g)),
        (M::Int(t, a), Obs::Int(u, b)) => t == u && a == b,
        (M::F32(a), Obs::F32(b)) => a == b,
        (M::F64(a), Obs::F64(b)) => a == b,
        (M::Other(k, a), Obs::Other(j, b)) => k == j && a == b,
        _ => false,
    }
}

fn roots() -> Vec<(M, PrimitiveValue)> {
    let mut r: Vec<PrimitiveValue> = vec![PrimitiveValue::Empty, PrimitiveValue::Str("X".into())];
    for n in 0..=2usize {
        r.push(PrimitiveValue::Strs(["a", "b "].iter().take(n).map(|s| s.to_string()).collect()));
        for v in IVARS {
            r.push(int_value(v, &[1, 2][..n]));
        }
        r.push(PrimitiveValue::F32([1.5f32, -2.0].iter().take(n).copied().collect()));
        r.push(PrimitiveValue::F64([1.5f64, -2.0].iter().take(n).copied().collect()));
        for k in ["Tags", "Date", "Time", "DateTime"] {
            r.push(other_value(k, n));
        }
    }
    r.into_iter()
        .map(|v| {
            let m = match observe(&v) {
                Obs::Empty => M::Empty,
                Obs::Str(s) => M::Str(s),
                Obs::Strs(s) => M::Strs(s.into_iter().map(TextItem::Lit).collect()),
                Obs::Int(t, i) => M::Int(t, i),
                Obs::F32(b) => M::F32(b),
                Obs::F64(b) => M::F64(b),
                Obs::Other(k, i) => M::Other(k, i),
            };
            (m, v)
        })
        .collect()
}

fn ops() -> Vec<Op> {
    vec![
        Op::ExtStr(vec!["A"]),
        Op::ExtStr(vec!["B ", "C"]),
        Op::ExtU16(vec![7]),
        Op::ExtU16(vec![65535, 256]),
        Op::ExtI16(vec![-1]),
        Op::ExtI16(vec![-32768, 5]),
        Op::ExtI32(vec![-70000]),
        Op::ExtI32(vec![2147483647, -129]),
        Op::ExtU32(vec![4294967295]),
        Op::ExtU32(vec![70000, 1]),
        Op::ExtF32(vec![1.5]),
        Op::ExtF32(vec![-2.0, 3.0e9]),
        Op::ExtF64(vec![-0.5]),
        Op::ExtF64(vec![1e20, 16777217.0]),
        Op::Trunc(0),
        Op::Trunc(1),
        Op::Trunc(2),
        Op::Trunc(5),
    ]
}

/// Replay `hist ++ [op]` from the root on model and implementation, comparing after every step.
/// Returns the final model state and whether the last op was accepted, or a failure description.
fn run_trace(root: &(M, PrimitiveValue), all_ops: &[Op], hist: &[u8], verbose: bool) -> Result<(M, bool), (usize, &'static str, String)> {
    let mut m = root.0.clone();
    let mut v = root.1.clone();
    let mut accepted = true;
    for (i, &oi) in hist.iter().enumerate() {
        let op = &all_ops[oi as usize];
        let before = m.variant();
        let (acc, next) = model_step(&m, op);
        let r = guard(|| {
            let ok = op.apply_real(&mut v);
            (ok, observe(&v))
        });
        if verbose {
            eprintln!("step {i}: {op:?} on {before}: model accepted={acc} -> {next:?}; impl -> {r:?}");
        }
        match r {
            Err(p) => return Err((i, "panic", format!("{op:?} on {before}: {p}"))),
            Ok((ok, obs)) => {
                if ok != acc {
                    return Err((i, "return", format!("{op:?} on {before}: model says {} but implementation returned {}", if acc { "Ok" } else { "Err" }, if ok { "Ok" } else { "Err" })));
                }
                if !state_matches(&next, &obs) {
                    return Err((i, "state", format!("{op:?} on {before}: model {next:?}, implementation {obs:?}")));
                }
            }
        }
        m = next;
        accepted = acc;
    }
    Ok((m, accepted))
}

fn hist_id(root: usize, hist: &[u8]) -> String {
    format!("hist/r{root}/{}", hist.iter().map(|x| x.to_string()).collect::<Vec<_>>().join("."))
}

#[allow(clippy::too_many_arguments)]
fn report(l: &mut Local, roots: &[(M, PrimitiveValue)], all_ops: &[Op], root: usize, hist: &[u8], step: usize, kind: &str, msg: String) {
    let op = &all_ops[hist[step] as usize];
    // state before the failing step, from the model
    let mut m = roots[root].0.clone();
    for &oi in &hist[..step] {
        m = model_step(&m, &all_ops[oi as usize]).1;
    }
    let n_items = match &m {
        M::Empty => 0,
        M::Str(_) => 1,
        M::Strs(v) => v.len(),
        M::Int(_, v) => v.len(),
        M::F32(v) => v.len(),
        M::F64(v) => v.len(),
        M::Other(_, v) => v.len(),
    };
    l.fail(
        &hist_id(root, &hist[..=step]),
        json!({"family": "history", "op": op.kind(), "variant": m.variant(), "kind": kind, "items_before": n_items.min(3)}),
        json!({"root": format!("{:?}", roots[root].0), "history": hist[..=step].iter().map(|&o| format!("{:?}", all_ops[o as usize])).collect::<Vec<_>>(), "message": msg}),
    );
}

fn key128(m: &M) -> u128 {
    ((hash_of(m) as u128) << 64) | hash_of(&(0x9E3779B97F4A7C15u64, m)) as u128
}

fn main() {
    let check = Check::from_args("C11", Level::ModelChecking);
    let depth: usize = std::env::var("VERIF_C11_DEPTH").ok().and_then(|s| s.parse().ok()).unwrap_or(check.pick(4, 5));
    check.set_rule(&format!("conversions: every source of the boundary universe (Empty; 37 texts as Str, as one-item Strs and all 37^2 two-item Strs; U8/I16/U16/I32/U32/I64/U64 with no item, 0, MIN, MAX, -1, every power-of-two boundary that fits, 2- and 3-item lists; F32/F64 with zeros, NaN, infinities, extremes, f32-range boundary doubles; Tags/Date/Time/DateTime with 0-2 items) x 20 targets x 3 entry points, plus all 2^8 U8 and all 2^16 I16/U16 one-item values x 20 targets; a case = (source, entry point, target). histories: breadth-first over the model states reachable from 44 roots (16 variants x 0-2 items) by 18 operations up to depth {depth}; states deduplicated by (variant, items); every transition = the whole history re-executed on a fresh real PrimitiveValue with the observable compared after every step; non-trivial = the conversion / operation executed"));
    check.assume("vx_core::num: i128 range checks, decimal recognisers ([+-]?digits[.digits] after trimming spaces and NULs), round-to-nearest-even integer->float by bit manipulation, `as` cast semantics restated in i128 (wrap for integers, saturate/truncate for floats); Rust's exact f32->f64 widening");
    check.assume("choices left open by the statement, both accepted: float variants -> integer targets may be Err (documented) or the exact integer; non-numeric variants may give Err, or an empty list when they hold no item; a finite f64 beyond the f32 range may give Err or infinity");

    // ---------------- Part A ----------------
    let targets = all_targets();
    let sources = conversion_sources();
    check.extra("conversion_sources", json!(sources.len()));
    check.par_range(sources.len() as u64, |l, i| {
        let (id, src) = &sources[i as usize];
        run_conv(l, id, src, &[0, 1, 2], &targets);
        l.nontrivial(id);
    });
    // all values of the narrow variants
    check.par_range(256 + 2 * 65536, |l, i| {
        let (v, n) = if i < 256 {
            (IVar::U8, i as i128)
        } else if i < 256 + 65536 {
            (IVar::I16, (i - 256) as i128 - 32768)
        } else {
            (IVar::U16, (i - 256 - 65536) as i128)
        };
        let id = format!("all-{}-{n}", v.name());
        run_conv(l, &id, &Src::Int(v, vec![n]), &[0], &targets);
        l.nontrivial_distinct_by_construction(1);
    });

    // ---------------- Part B ----------------
    let roots = roots();
    let all_ops = ops();
    check.extra("history", json!({"roots": roots.len(), "operations": all_ops.len(), "depth": depth}));
    let replay_hist: Option<(usize, Vec<u8>)> = check.replay.as_ref().and_then(|v| {
        let id = v.get("case_id")?.as_str()?;
        let rest = id.strip_prefix("hist/r")?;
        let (r, h) = rest.split_once('/')?;
        let hist: Option<Vec<u8>> = if h.is_empty() { Some(vec![]) } else { h.split('.').map(|x| x.parse().ok()).collect() };
        Some((r.parse().ok()?, hist?))
    });
    if let Some((root, hist)) = replay_hist {
        let mut l = check.local();
        l.eval();
        check.add_states(1);
        check.add_transitions(hist.len() as u64);
        if root < roots.len() && hist.iter().all(|&o| (o as usize) < all_ops.len()) {
            l.nontrivial_distinct_by_construction(2);
            if let Err((step, kind, msg)) = run_trace(&roots[root], &all_ops, &hist, true) {
                report(&mut l, &roots, &all_ops, root, &hist, step, kind, msg);
            }
        }
    } else if !check.replaying() {
        let mut visited: HashSet<u128> = HashSet::new();
        let mut frontier: Vec<(u8, Vec<u8>)> = vec![];
        for (i, r) in roots.iter().enumerate() {
            if visited.insert(key128(&r.0)) {
                frontier.push((i as u8, vec![]));
            }
        }
        let mut levels = vec![];
        const SHARDS: usize = 256;
        let last_sets: Vec<Mutex<HashSet<u128>>> = (0..SHARDS).map(|_| Mutex::new(HashSet::new())).collect();
        let mut last_new = 0u64;
        for d in 0..depth {
            let next: Mutex<Vec<(u8, Vec<u8>, u128)>> = Mutex::new(vec![]);
            let last = d + 1 == depth;
            let visited_ref = &visited;
            check.par_range(frontier.len() as u64, |l, i| {
                let (root, hist) = &frontier[i as usize];
                let mut succ = vec![];
                for oi in 0..all_ops.len() as u8 {
                    let mut h = hist.clone();
                    h.push(oi);
                    l.eval();
                    l.nontrivial_distinct_by_construction(1);
                    match run_trace(&roots[*root as usize], &all_ops, &h, false) {
                        Ok((m, acc)) => {
                            l.outcome(&format!("hist/{}/{}", all_ops[oi as usize].kind(), if acc { "applied" } else { "rejected-unchanged" }));
                            let k = key128(&m);
                            if last {
                                // states of the deepest level are only counted (they are not expanded)
                                if !visited_ref.contains(&k) {
                                    last_sets[(k % SHARDS as u128) as usize].lock().unwrap().insert(k);
                                }
                            } else {
                                succ.push((*root, h, k));
                            }
                        }
                        Err((step, kind, msg)) => {
                            l.outcome("hist/MISMATCH");
                            report(l, &roots, &all_ops, *root as usize, &h, step, kind, msg);
                        }
                    }
                }
                if !succ.is_empty() {
                    next.lock().unwrap().extend(succ);
                }
            });
            let transitions = frontier.len() as u64 * all_ops.len() as u64;
            check.add_transitions(transitions);
            check.add_traces(transitions);
            let mut succ = next.into_inner().unwrap();
            succ.sort();
            let mut nf = vec![];
            for (root, h, k) in succ {
                if visited.insert(k) {
                    nf.push((root, h));
                }
            }
            if last {
                last_new = last_sets.iter().map(|s| s.lock().unwrap().len() as u64).sum();
            }
            levels.push(json!({"depth": d + 1, "transitions": transitions, "new_states": if last { last_new } else { nf.len() as u64 }}));
            if last {
                break;
            }
            frontier = nf;
            if frontier.is_empty() {
                break;
            }
        }
        check.add_states(visited.len() as u64 + last_new);
        check.extra("bfs", json!({"levels": levels, "fixpoint": last_new == 0, "states_on_last_level_not_expanded": last_new}));
    } else {
        // replay of a conversion case: BFS not re-run; model-checking counters must still be non-zero
        check.add_states(1);
        check.add_transitions(1);
    }
    check.finish();
}
