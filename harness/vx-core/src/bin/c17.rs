//! C17 — person names round-trip between text and components.
//!
//! Universe: every assignment of {absent, one of T texts} to the five components
//! (family, given, middle, prefix, suffix) — (T+1)^5 names, which contains all 32 present/absent
//! patterns with every combination of texts — each built through `PersonNameBuilder` in every order
//! of the `with_*` calls that matters (all k! orders of the k present components; reduced in quick).
//! Oracle: reference formatter (components joined by '^' in the PS3.5 order family^given^middle^
//! prefix^suffix, trailing empty components dropped) and component-wise comparison after
//! `from_text`; also through `PrimitiveValue::from(name)` / `to_person_name()`.
use dicom_core::value::{PersonName, PrimitiveValue};
use vx_kit::{guard, json, Check, Level};

const COMP: [&str; 5] = ["family", "given", "middle", "prefix", "suffix"];

fn build(order: &[usize], texts: &[Option<&'static str>; 5]) -> PersonName<'static> {
    let mut b = PersonName::builder();
    for &c in order {
        if let Some(t) = texts[c] {
            match c {
                0 => b.with_family(t),
                1 => b.with_given(t),
                2 => b.with_middle(t),
                3 => b.with_prefix(t),
                _ => b.with_suffix(t),
            };
        }
    }
    b.build()
}

fn comps<'a>(n: &'a PersonName<'_>) -> [Option<&'a str>; 5] {
    [n.family(), n.given(), n.middle(), n.prefix(), n.suffix()]
}

fn ref_text(texts: &[Option<&str>; 5]) -> String {
    let mut parts: Vec<&str> = texts.iter().map(|t| t.unwrap_or("")).collect();
    while parts.last() == Some(&"") {
        parts.pop();
    }
    parts.join("^")
}

fn permutations(items: &[usize]) -> Vec<Vec<usize>> {
    if items.len() <= 1 {
        return vec![items.to_vec()];
    }
    let mut out = vec![];
    for i in 0..items.len() {
        let mut rest = items.to_vec();
        let x = rest.remove(i);
        for mut p in permutations(&rest) {
            p.insert(0, x);
            out.push(p);
        }
    }
    out
}

fn main() {
    let check = Check::from_args("C17", Level::Exploration);
    // component texts: no '^', no '=', no leading/trailing space (the statement's precondition)
    let texts: Vec<&'static str> = if check.quick() {
        vec!["A", "A B", "é", "O'X"]
    } else {
        vec!["A", "A B", "é", "O'X", "x.y-z", "Ünï cødé 名", "D'Arc, J.", "0123456789012345678901234567890123456789012345678901234567890123"]
    };
    let t = texts.len() as u64 + 1;
    let n_names = t.pow(5);
    check.set_rule("every assignment of {absent, text_1..text_T} to (family, given, middle, prefix, suffix) [(T+1)^5 names, T=4 quick / 8 thorough; covers all 32 presence patterns x all text combinations], each built with PersonNameBuilder in every order of the with_* calls for its present components (quick: all orders only when all texts are the first one; thorough: all orders always); plus the 'present but empty' family (Some(\"\")) compared modulo empty==absent; a case = (name, builder order); distinct by (texts, order); non-trivial = to_dicom_string and from_text both ran");
    check.assume("reference formatter written from PS3.5 6.2.1.1 (component order family^given^middle^prefix^suffix)");
    check.extra("universe", json!({"texts": texts, "names": n_names}));

    check.par_range(n_names, |l, i| {
        let mut sel = [None; 5];
        let mut x = i;
        let mut first_only = true;
        for s in sel.iter_mut() {
            let d = (x % t) as usize;
            x /= t;
            if d > 0 {
                *s = Some(texts[d - 1]);
                if d != 1 {
                    first_only = false;
                }
            }
        }
        let present: Vec<usize> = (0..5).filter(|&c| sel[c].is_some()).collect();
        let orders = if l.check.thorough() || first_only { permutations(&present) } else { vec![present.clone()] };
        let pattern: String = (0..5).map(|c| if sel[c].is_some() { '1' } else { '0' }).collect();
        let expect_text = ref_text(&sel);
        for order in &orders {
            let ostr: String = order.iter().map(|c| char::from(b'0' + *c as u8)).collect();
            let case_id = format!("name/{i}/o{ostr}");
            if !l.want(&case_id) {
                continue;
            }
            l.eval();
            let class = |stage: &str, kind: &str| json!({"family": "name", "pattern": pattern, "stage": stage, "kind": kind});
            let detail = |m: String| json!({"components": COMP.iter().zip(sel.iter()).map(|(k, v)| json!({*k: v})).collect::<Vec<_>>(), "order": ostr, "expected_text": expect_text, "message": m});
            let r = guard(|| {
                let name = build(order, &sel);
                let built = comps(&name).map(|o| o.map(String::from));
                let text = name.to_dicom_string();
                let back = PersonName::from_text(&text);
                let back_c = comps(&back).map(|o| o.map(String::from));
                // PrimitiveValue path
                let pv = PrimitiveValue::from(name.clone());
                let via_pv = pv.to_person_name().ok().map(|p| comps(&p).map(|o| o.map(String::from)));
                (built, text, back_c, via_pv)
            });
            let (built, text, back_c, via_pv) = match r {
                Err(p) => {
                    l.outcome("panic");
                    l.fail(&case_id, class("any", "panic"), detail(p));
                    continue;
                }
                Ok(v) => v,
            };
            l.nontrivial(&case_id);
            let want: [Option<String>; 5] = sel.map(|o| o.map(String::from));
            if built != want {
                l.outcome("builder-mismatch");
                l.fail(&case_id, class("builder", "components"), detail(format!("builder produced {built:?}")));
                continue;
            }
            if text != expect_text {
                l.outcome("text-mismatch");
                l.fail(&case_id, class("to_dicom_string", "text"), detail(format!("got text {text:?}")));
                continue;
            }
            if back_c != want {
                l.outcome("roundtrip-mismatch");
                l.fail(&case_id, class("from_text", "components"), detail(format!("text {text:?} parsed to {back_c:?}")));
                continue;
            }
            if via_pv.as_ref() != Some(&want) {
                l.outcome("primitive-path-mismatch");
                l.fail(&case_id, class("to_person_name", "components"), detail(format!("PrimitiveValue path gave {via_pv:?}")));
                continue;
            }
            let trailing = (0..5).rev().take_while(|&c| sel[c].is_none()).count();
            let leading = (0..5).take_while(|&c| sel[c].is_none()).count();
            l.outcome_with(&format!("ok/trailing-omitted={}/leading-kept={}", trailing.min(5), if trailing == 5 { 0 } else { leading }), || json!({"text": text, "components": want}));
        }
    });

    // present-but-empty components: Some("") is compared as absent (the statement speaks of empty components)
    {
    let l = &mut check.local();
    for mask in 0u32..32 {
        for empty_mask in 1u32..32 {
            if empty_mask & !mask != 0 {
                continue;
            }
            let case_id = format!("empty/{mask:05b}/{empty_mask:05b}");
            if !l.want(&case_id) {
                continue;
            }
            l.eval();
            let mut sel = [None; 5];
            for c in 0..5 {
                if mask >> c & 1 == 1 {
                    sel[c] = Some(if empty_mask >> c & 1 == 1 { "" } else { "A" });
                }
            }
            let order: Vec<usize> = (0..5).collect();
            let norm: [Option<String>; 5] = sel.map(|o| o.filter(|s| !s.is_empty()).map(String::from));
            let r = guard(|| {
                let name = build(&order, &sel);
                let text = name.to_dicom_string();
                let back_c = comps(&PersonName::from_text(&text)).map(|o| o.filter(|s| !s.is_empty()).map(String::from));
                (text, back_c)
            });
            match r {
                Err(p) => {
                    l.outcome("panic");
                    l.fail(&case_id, json!({"family": "empty-present", "kind": "panic"}), json!({"components": sel, "message": p}));
                }
                Ok((text, back)) => {
                    l.nontrivial(&case_id);
                    if back != norm {
                        l.outcome("empty-roundtrip-mismatch");
                        l.fail(&case_id, json!({"family": "empty-present", "kind": "components"}), json!({"components": sel, "text": text, "parsed": back}));
                    } else {
                        l.outcome("ok/empty-present");
                    }
                }
            }
        }
    }
    }
    check.finish();
}
