//! C15 — the standard data dictionary answers consistently for every tag, keyword, constant and UID.
//!
//! Reference: the entry table extracted from the working tree (dict.tsv, cross-checked against the
//! doc-comment rendering docs.tsv), looked up by direct array indexing with the precedence of the
//! statement. Subject: `StandardDataDictionary::{by_tag, by_name}` (both `DataDictionary` impls), the
//! compiled `tags::*` constants, `StandardSopClassDictionary::{by_uid, by_keyword}`.
use dicom_core::dictionary::{DataDictionary, DataDictionaryEntry, DataDictionaryEntryRef, TagRange, UidDictionary, VirtualVr};
use dicom_core::Tag;
use dicom_dictionary_std::{StandardDataDictionary, StandardSopClassDictionary};
use std::collections::{BTreeMap, BTreeSet};
use std::sync::atomic::{AtomicU64, Ordering};
use vx_core::consts::{TagConst, TAG_CONSTS, UID_CONSTS};
use vx_core::dictref::{DictRef, Kind, Lookup};
use vx_kit::{guard, json, Check, Level, Local};

fn vr_text(v: VirtualVr) -> String {
    match v {
        VirtualVr::Exact(vr) => vr.to_string().to_string(),
        VirtualVr::Xs => "xs".into(),
        VirtualVr::Ox => "ox".into(),
        VirtualVr::Px => "px".into(),
        VirtualVr::Lt => "lt".into(),
        _ => "?".into(),
    }
}

/// observable form of an implementation entry: (range kind, tag, alias, vr)
fn obs(e: &DataDictionaryEntryRef<'_>) -> (&'static str, (u16, u16), String, String) {
    let (k, t) = match e.tag {
        TagRange::Single(t) => ("single", (t.0, t.1)),
        TagRange::Group100(t) => ("group100", (t.0, t.1)),
        TagRange::Element100(t) => ("element100", (t.0, t.1)),
        TagRange::GroupLength => ("group-length", (0, 0)),
        TagRange::PrivateCreator => ("private-creator", (0, 0)),
    };
    (k, t, e.alias.to_string(), vr_text(e.vr))
}

fn kind_name(k: Kind) -> &'static str {
    match k {
        Kind::Single => "single",
        Kind::Group100 => "group100",
        Kind::Element100 => "element100",
    }
}

const CLASSES: [&str; 6] = ["exact", "repeating-group", "repeating-element", "private-creator", "group-length", "none"];

struct Sweep<'a> {
    dict: &'a DictRef,
    suppressed: &'a AtomicU64,
    by_ref_impl: bool,
}

impl Sweep<'_> {
    /// Compare one tag; returns the reference class index, or Err(description) on disagreement.
    #[inline]
    fn one(&self, g: u16, e: u16) -> Result<usize, (usize, String, String)> {
        let tag = Tag(g, e);
        let got = if self.by_ref_impl { (&StandardDataDictionary).by_tag(tag) } else { StandardDataDictionary.by_tag(tag) };
        let want = self.dict.lookup(g, e);
        match want {
            Lookup::Entry(idx) => {
                let r = &self.dict.entries[idx as usize];
                let cls = match r.kind {
                    Kind::Single => 0,
                    Kind::Group100 => 1,
                    Kind::Element100 => 2,
                };
                match got {
                    Some(x) => {
                        let ok = self.dict.alternatives(idx).iter().any(|&i| {
                            let r = &self.dict.entries[i as usize];
                            let (k, t) = match x.tag {
                                TagRange::Single(t) => (Kind::Single, t),
                                TagRange::Group100(t) => (Kind::Group100, t),
                                TagRange::Element100(t) => (Kind::Element100, t),
                                _ => return false,
                            };
                            k == r.kind && (t.0, t.1) == r.tag && x.alias == r.alias && vr_text(x.vr) == r.vr
                        });
                        if ok {
                            Ok(cls)
                        } else {
                            Err((cls, format!("{} ({:04X},{:04X}) {} {}", kind_name(r.kind), r.tag.0, r.tag.1, r.alias, r.vr), format!("{:?}", obs(x))))
                        }
                    }
                    None => Err((cls, format!("{} ({:04X},{:04X}) {} {}", kind_name(r.kind), r.tag.0, r.tag.1, r.alias, r.vr), "None".into())),
                }
            }
            Lookup::PrivateCreator => match got {
                Some(x) if x.tag == TagRange::PrivateCreator => Ok(3),
                other => Err((3, "private creator entry".into(), format!("{:?}", other.map(obs)))),
            },
            Lookup::GroupLength => match got {
                Some(x) if x.tag == TagRange::GroupLength => Ok(4),
                other => Err((4, "generic group length entry".into(), format!("{:?}", other.map(obs)))),
            },
            Lookup::None => match got {
                None => Ok(5),
                Some(x) => Err((5, "None".into(), format!("{:?}", obs(x)))),
            },
        }
    }

    fn block(&self, l: &mut Local, g: u16, elems: &mut dyn Iterator<Item = u16>) {
        let mut counts = [0u64; 6];
        let mut n = 0u64;
        let mut fails = 0u32;
        for e in elems {
            n += 1;
            match self.one(g, e) {
                Ok(c) => counts[c] += 1,
                Err((c, want, got)) => {
                    counts[c] += 1;
                    fails += 1;
                    if fails <= 8 {
                        let case_id = format!("tag/{g:04X}{e:04X}");
                        let got_kind = got.split(|ch: char| !ch.is_ascii_alphanumeric() && ch != '-').find(|s| !s.is_empty()).unwrap_or("?").to_string();
                        l.fail(
                            &case_id,
                            json!({"family": "by_tag", "expected_class": CLASSES[c], "got_kind": got_kind, "impl": if self.by_ref_impl { "&StandardDataDictionary" } else { "StandardDataDictionary" }}),
                            json!({"tag": format!("({g:04X},{e:04X})"), "expected": want, "got": got}),
                        );
                    } else {
                        self.suppressed.fetch_add(1, Ordering::Relaxed);
                    }
                }
            }
        }
        l.evals(n);
        l.nontrivial_distinct_by_construction(n);
        for (i, c) in counts.iter().enumerate() {
            l.outcome_n(&format!("by_tag/{}", CLASSES[i]), *c);
        }
        if fails > 0 {
            l.outcome_n("by_tag/MISMATCH", fails as u64);
        }
    }
}

fn parse_doc_pattern(p: &str) -> Option<(Kind, (u16, u16))> {
    let (g, e) = p.split_once(',')?;
    let h = |s: &str| u16::from_str_radix(s, 16).ok();
    match (g.split_once('-'), e.split_once('-')) {
        (None, None) => Some((Kind::Single, (h(g)?, h(e)?))),
        (Some((a, b)), None) => {
            let (a, b) = (h(a)?, h(b)?);
            if a & 0xFF == 0 && b == a | 0xFF {
                Some((Kind::Group100, (a, h(e)?)))
            } else {
                None
            }
        }
        (None, Some((a, b))) => {
            let (a, b) = (h(a)?, h(b)?);
            if a & 0xFF == 0 && b == a | 0xFF {
                Some((Kind::Element100, (h(g)?, a)))
            } else {
                None
            }
        }
        _ => None,
    }
}

fn main() {
    let check = Check::from_args("C15", Level::Exploration);
    let dict = DictRef::load();
    check.set_rule("tag sweep: thorough = all 2^32 tags (one block per group); quick = all 65 536 elements of every group that owns a table row, of its neighbours +-1 and of every group of the repeating ranges (gg00-ggFF) and their neighbours, plus for all 65 536 groups the elements {0000,0001,000F,0010,0011,00FE,00FF,0100,FFFF} and every element that has a repeating-group row; each tag is one case (distinct by construction), non-trivial = by_tag executed and compared with the reference lookup (exact -> repeating group -> repeating element -> private creator -> group length -> none, direct indexing of the extracted table). Then every table keyword through by_name (both DataDictionary impls) plus the keywords of the two generic entries; every compiled tags::* constant against the doc-comment rendering of the table and its entry; every SOP class row through by_uid/by_keyword (bijection), every compiled uids::* constant");
    check.assume("the entry table extracted from dictionary-std/src/tags.rs and uids.rs is the published table (ground truth named by the statement); its doc-comment rendering is used as a second, independently printed copy");
    check.extra("table", json!({"entries": dict.entries.len(), "duplicate_keys": dict.duplicates, "tag_constants": TAG_CONSTS.len(), "uid_constants": UID_CONSTS.len()}));
    let suppressed = AtomicU64::new(0);

    // ---------- replay of one tag ----------
    let replay_tag: Option<(u16, u16, bool)> = check.replay.as_ref().and_then(|v| {
        let id = v.get("case_id")?.as_str()?;
        let by_ref = v.get("class").and_then(|c| c.get("impl")).and_then(|s| s.as_str()) == Some("&StandardDataDictionary");
        let h = id.strip_prefix("tag/")?;
        Some((u16::from_str_radix(h.get(0..4)?, 16).ok()?, u16::from_str_radix(h.get(4..8)?, 16).ok()?, by_ref))
    });

    // ---------- part 1: tag sweep ----------
    let base: Vec<u16> = vec![0x0000, 0x0001, 0x000F, 0x0010, 0x0011, 0x00FE, 0x00FF, 0x0100, 0xFFFF];
    let mut full_groups: BTreeSet<u16> = BTreeSet::new();
    for g in dict.groups_with_entries() {
        for d in [-1i32, 0, 1] {
            let x = g as i32 + d;
            if (0..=65535).contains(&x) {
                full_groups.insert(x as u16);
            }
        }
    }
    for b in dict.repeating_group_bases() {
        for x in (b as i32 - 1)..=(b as i32 + 0x100) {
            if (0..=65535).contains(&x) {
                full_groups.insert(x as u16);
            }
        }
    }
    let mut rep_elems: BTreeSet<u16> = base.iter().copied().collect();
    for e in &dict.entries {
        if e.kind == Kind::Group100 {
            rep_elems.insert(e.tag.1);
        }
    }
    let rep_elems: Vec<u16> = rep_elems.into_iter().collect();
    if let Some((g, e, by_ref)) = replay_tag {
        let sw = Sweep { dict: &dict, suppressed: &suppressed, by_ref_impl: by_ref };
        let mut l = check.local();
        sw.block(&mut l, g, &mut std::iter::once(e));
    } else if !check.replaying() {
        let sw = Sweep { dict: &dict, suppressed: &suppressed, by_ref_impl: false };
        let sw_ref = Sweep { dict: &dict, suppressed: &suppressed, by_ref_impl: true };
        let thorough = check.thorough();
        check.par_range(65536, |l, gi| {
            let g = gi as u16;
            let full = full_groups.contains(&g);
            if thorough || full {
                sw.block(l, g, &mut (0..=65535u16));
            } else {
                sw.block(l, g, &mut rep_elems.iter().copied());
            }
            // the second trait impl on the reduced set
            if full {
                sw_ref.block(l, g, &mut (0..=65535u16).step_by(if thorough { 1 } else { 7 }));
            } else {
                sw_ref.block(l, g, &mut base.iter().copied());
            }
        });
        for (g, e) in [(0x0010u16, 0x0010u16), (0x6012, 0x3000), (0x0020, 0x31AB), (0x0009, 0x0010), (0x7FE0, 0x0000), (0x0011, 0x1001)] {
            check.sample(json!({"tag": format!("({g:04X},{e:04X})"), "reference": format!("{:?}", dict.lookup(g, e)), "by_tag": format!("{:?}", StandardDataDictionary.by_tag(Tag(g, e)).map(obs))}));
        }
        check.extra("sweep", json!({"groups_swept_fully_in_quick": full_groups.len(), "elements_per_other_group_in_quick": rep_elems.len(), "tier_sweeps_all_2^32": thorough}));
    }

    // ---------- part 2: keywords ----------
    {
        let mut l = check.local();
        let mut names: Vec<(String, &'static str, (u16, u16), String)> =
            dict.entries.iter().map(|e| (e.alias.clone(), kind_name(e.kind), e.tag, e.vr.clone())).collect();
        // the two generic entries, as by_tag hands them out
        for t in [Tag(0x0009, 0x0010), Tag(0x0009, 0x0000)] {
            if let Some(e) = StandardDataDictionary.by_tag(t) {
                let o = obs(e);
                names.push((o.2.clone(), o.0, (e.tag().0, e.tag().1), o.3));
            }
        }
        for (alias, kind, tag, vr) in &names {
            for by_ref in [false, true] {
                let case_id = format!("name/{alias}/{}", if by_ref { "ref" } else { "val" });
                if !l.want(&case_id) {
                    continue;
                }
                l.eval();
                let r = guard(|| if by_ref { (&StandardDataDictionary).by_name(alias) } else { StandardDataDictionary.by_name(alias) });
                let class = |k: &str| json!({"family": "by_name", "entry_kind": kind, "kind": k});
                match r {
                    Err(p) => {
                        l.outcome("by_name/panic");
                        l.fail(&case_id, class("panic"), json!({"keyword": alias, "message": p}));
                    }
                    Ok(None) => {
                        l.outcome("by_name/none");
                        l.fail(&case_id, class("none"), json!({"keyword": alias, "expected_tag": format!("({:04X},{:04X})", tag.0, tag.1), "got": "None"}));
                    }
                    Ok(Some(e)) => {
                        l.nontrivial(&case_id);
                        let o = obs(e);
                        let generic = *kind == "group-length" || *kind == "private-creator";
                        let same_tag = if generic { o.0 == *kind && (e.tag().0, e.tag().1) == *tag } else { o.0 == *kind && o.1 == *tag };
                        if o.2 != *alias || !same_tag || o.3 != *vr {
                            l.outcome("by_name/mismatch");
                            l.fail(&case_id, class("mismatch"), json!({"keyword": alias, "expected": format!("{kind} ({:04X},{:04X}) {vr}", tag.0, tag.1), "got": format!("{o:?}")}));
                        } else {
                            // for table rows, the single tag the entry reports resolves back to an entry with this
                            // keyword (the two generic entries report a placeholder tag by documentation)
                            let t = e.tag();
                            match StandardDataDictionary.by_tag(t) {
                                _ if generic => l.outcome_with(&format!("by_name/ok/{kind}"), || json!({"keyword": alias, "entry": format!("{o:?}")})),
                                Some(b) if b.alias == *alias => l.outcome_with(&format!("by_name/ok/{kind}"), || json!({"keyword": alias, "entry": format!("{o:?}")})),
                                other => {
                                    l.outcome("by_name/tag-not-resolving-back");
                                    l.fail(&case_id, class("tag-back"), json!({"keyword": alias, "tag": format!("{t}"), "by_tag_gives": format!("{:?}", other.map(obs))}));
                                }
                            }
                        }
                    }
                }
            }
        }
        check.extra("keywords", json!(names.len()));
    }

    // ---------- part 3: constants ----------
    {
        let mut l = check.local();
        let docs: BTreeMap<&str, &vx_core::dictref::Doc> = dict.docs.iter().map(|d| (d.const_name.as_str(), d)).collect();
        let by_const: BTreeMap<&str, usize> = dict.entries.iter().enumerate().map(|(i, e)| (e.const_name.as_str(), i)).collect();
        for (name, c) in TAG_CONSTS {
            let case_id = format!("const/{name}");
            if !l.want(&case_id) {
                continue;
            }
            l.eval();
            let (ck, ct) = match c {
                TagConst::T(t) => (Kind::Single, (t.0, t.1)),
                TagConst::R(TagRange::Group100(t)) => (Kind::Group100, (t.0, t.1)),
                TagConst::R(TagRange::Element100(t)) => (Kind::Element100, (t.0, t.1)),
                TagConst::R(TagRange::Single(t)) => (Kind::Single, (t.0, t.1)),
                TagConst::R(_) => (Kind::Single, (0xFFFF, 0xFFFF)),
            };
            let class = |k: &str| json!({"family": "tag-constant", "kind": k, "const_kind": kind_name(ck)});
            let Some(doc) = docs.get(name) else {
                l.outcome("const/no-doc");
                l.fail(&case_id, class("no-doc-row"), json!({"const": name}));
                continue;
            };
            let Some(&ei) = by_const.get(name) else {
                l.outcome("const/no-entry");
                l.fail(&case_id, class("no-entry"), json!({"const": name, "doc": doc.pattern}));
                continue;
            };
            let ent = &dict.entries[ei];
            l.nontrivial(&case_id);
            let doc_tag = parse_doc_pattern(&doc.pattern);
            let doc_vr_ok = doc.vr == ent.vr || (doc.vr == "up" && ent.vr == "UL");
            if doc_tag != Some((ck, ct)) || (ent.kind, ent.tag) != (ck, ct) || doc.alias != ent.alias || !doc_vr_ok {
                l.outcome("const/mismatch");
                l.fail(&case_id, class("value"), json!({"const": name, "compiled": format!("{} ({:04X},{:04X})", kind_name(ck), ct.0, ct.1), "doc": format!("{} ({}) {}", doc.alias, doc.pattern, doc.vr), "entry": format!("{} ({:04X},{:04X}) {} {}", kind_name(ent.kind), ent.tag.0, ent.tag.1, ent.alias, ent.vr)}));
                continue;
            }
            // the compiled constant looks up its own entry
            match guard(|| StandardDataDictionary.by_tag(Tag(ct.0, ct.1)).map(obs)) {
                Ok(Some(o)) if o.2 == ent.alias && o.1 == ct && o.0 == kind_name(ck) => l.outcome(&format!("const/ok/{}", kind_name(ck))),
                other => {
                    l.outcome("const/lookup-mismatch");
                    l.fail(&case_id, class("lookup"), json!({"const": name, "expected_alias": ent.alias, "got": format!("{other:?}")}));
                }
            }
        }
        // every table row has a constant
        let compiled: BTreeSet<&str> = TAG_CONSTS.iter().map(|(n, _)| *n).collect();
        for e in &dict.entries {
            let case_id = format!("entry-const/{}", e.const_name);
            if !l.want(&case_id) {
                continue;
            }
            l.eval();
            if compiled.contains(e.const_name.as_str()) {
                l.outcome("entry-const/ok");
            } else {
                l.outcome("entry-const/missing");
                l.fail(&case_id, json!({"family": "tag-constant", "kind": "entry-without-constant"}), json!({"entry": e.alias, "const": e.const_name}));
            }
        }
    }

    // ---------- part 4: SOP class dictionary ----------
    {
        let mut l = check.local();
        let sops = vx_core::dictref::load_sop_classes();
        let mut uids = BTreeSet::new();
        let mut kws = BTreeSet::new();
        let sd = StandardSopClassDictionary;
        for s in &sops {
            let case_id = format!("sop/{}", s.uid);
            if !l.want(&case_id) {
                continue;
            }
            l.eval();
            let fresh = uids.insert(s.uid.clone()) & kws.insert(s.alias.clone());
            let r = guard(|| {
                let a = sd.by_uid(&s.uid).map(|e| (e.uid.to_string(), e.name.to_string(), e.alias.to_string(), format!("{:?}", e.r#type), e.retired));
                let b = sd.by_keyword(&s.alias).map(|e| (e.uid.to_string(), e.name.to_string(), e.alias.to_string(), format!("{:?}", e.r#type), e.retired));
                (a, b)
            });
            let want = Some((s.uid.clone(), s.name.clone(), s.alias.clone(), s.ty.clone(), s.retired));
            let class = |k: &str| json!({"family": "sop-class", "kind": k});
            match r {
                Err(p) => {
                    l.outcome("sop/panic");
                    l.fail(&case_id, class("panic"), json!({"uid": s.uid, "message": p}));
                }
                Ok((a, b)) => {
                    l.nontrivial(&case_id);
                    if !fresh {
                        l.outcome("sop/duplicate-key-in-table");
                        l.fail(&case_id, class("duplicate-key"), json!({"uid": s.uid, "keyword": s.alias}));
                    } else if a != want {
                        l.outcome("sop/by_uid-mismatch");
                        l.fail(&case_id, class("by_uid"), json!({"uid": s.uid, "expected": format!("{want:?}"), "got": format!("{a:?}")}));
                    } else if b != want {
                        l.outcome("sop/by_keyword-mismatch");
                        l.fail(&case_id, class("by_keyword"), json!({"keyword": s.alias, "expected": format!("{want:?}"), "got": format!("{b:?}")}));
                    } else {
                        l.outcome(if s.retired { "sop/ok/retired" } else { "sop/ok/current" });
                    }
                }
            }
        }
        // compiled UID constants: value as documented; SOP class constants are in the dictionary
        let udocs: BTreeMap<String, (String, String)> = vx_core::dictref::load_uid_docs().into_iter().map(|(n, u, t, _)| (n, (u, t))).collect();
        for (name, value) in UID_CONSTS {
            let case_id = format!("uid-const/{name}");
            if !l.want(&case_id) {
                continue;
            }
            l.eval();
            let class = |k: &str| json!({"family": "uid-constant", "kind": k});
            let Some((doc_uid, doc_ty)) = udocs.get(*name) else {
                l.outcome("uid-const/no-doc");
                l.fail(&case_id, class("no-doc-row"), json!({"const": name}));
                continue;
            };
            l.nontrivial(&case_id);
            if doc_uid != value {
                l.outcome("uid-const/mismatch");
                l.fail(&case_id, class("value"), json!({"const": name, "compiled": value, "doc": doc_uid}));
                continue;
            }
            let in_table = uids.contains(*value);
            let got = sd.by_uid(value).map(|e| e.uid.to_string());
            if in_table && got.as_deref() != Some(*value) {
                l.outcome("uid-const/lookup-mismatch");
                l.fail(&case_id, class("lookup"), json!({"const": name, "uid": value, "got": got}));
            } else if !in_table && got.is_some() && got.as_deref() != Some(*value) {
                l.outcome("uid-const/foreign-entry");
                l.fail(&case_id, class("foreign"), json!({"const": name, "uid": value, "got": got}));
            } else if doc_ty == "SOP Class" && !in_table {
                l.outcome("uid-const/sop-class-not-in-table");
                l.fail(&case_id, class("sop-class-missing"), json!({"const": name, "uid": value}));
            } else {
                l.outcome(if in_table { "uid-const/ok/sop-class" } else { "uid-const/ok/other-type-absent" });
            }
        }
        check.extra("sop_classes", json!(sops.len()));
    }
    let s = suppressed.load(Ordering::Relaxed);
    if s > 0 {
        check.extra("failures_beyond_8_per_block_not_listed", json!(s));
    }
    check.finish();
}
