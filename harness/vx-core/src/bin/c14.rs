//! C14 — tags, keywords and attribute selectors have a lossless text syntax.
//!
//! Families:
//!  tag/…      printed tags (Display) and the two other accepted forms, upper/lower/mixed case hex,
//!             through `Tag::from_str` and `DataDictionary::parse_tag`
//!  str/…      every string over a 14-symbol alphabet up to a byte length: `Tag::from_str` must agree
//!             with an independent recogniser (accept exactly the three forms, same value; anything
//!             else `Err`, never a panic); short ones also through `parse_selector`
//!  sel/…      selectors of bounded depth over a tag alphabet x item indices, printed by Display and in
//!             every alternative spelling, parsed by `parse_selector`
//!  kw/…       every dictionary keyword alone, as nested step and as leaf
use dicom_core::dictionary::DataDictionary;
use dicom_core::ops::{AttributeSelector, AttributeSelectorStep};
use dicom_core::Tag;
use dicom_dictionary_std::StandardDataDictionary;
use std::str::FromStr;
use vx_core::dictref::DictRef;
use vx_kit::{guard, json, Check, Level, Local};

const HEX_UP: &[u8; 16] = b"0123456789ABCDEF";
const HEX_LO: &[u8; 16] = b"0123456789abcdef";

/// write 4 hex digits; case: 0 upper, 1 lower, 2 mixed (alternating, starting lower)
fn hex4(out: &mut Vec<u8>, v: u16, case: u8) {
    for i in 0..4 {
        let d = ((v >> (12 - 4 * i)) & 0xF) as usize;
        let c = match case {
            0 => HEX_UP[d],
            1 => HEX_LO[d],
            _ => {
                if i % 2 == 0 {
                    HEX_LO[d]
                } else {
                    HEX_UP[d]
                }
            }
        };
        out.push(c);
    }
}

/// form: 0 "(gggg,eeee)", 1 "gggg,eeee", 2 "ggggeeee"
fn tag_text(g: u16, e: u16, form: u8, case: u8) -> String {
    let mut b = Vec::with_capacity(11);
    if form == 0 {
        b.push(b'(');
    }
    hex4(&mut b, g, case);
    if form != 2 {
        b.push(b',');
    }
    hex4(&mut b, e, case);
    if form == 0 {
        b.push(b')');
    }
    String::from_utf8(b).unwrap()
}

fn hexval(c: u8) -> Option<u16> {
    match c {
        b'0'..=b'9' => Some((c - b'0') as u16),
        b'a'..=b'f' => Some((c - b'a' + 10) as u16),
        b'A'..=b'F' => Some((c - b'A' + 10) as u16),
        _ => None,
    }
}

/// Independent recogniser: `\(H{4},H{4}\)` | `H{4},H{4}` | `H{8}` over bytes.
fn recognise_tag(s: &[u8]) -> Option<(u16, u16)> {
    let h4 = |b: &[u8]| -> Option<u16> {
        let mut v = 0u16;
        for &c in b {
            v = (v << 4) | hexval(c)?;
        }
        Some(v)
    };
    match s.len() {
        11 if s[0] == b'(' && s[5] == b',' && s[10] == b')' => Some((h4(&s[1..5])?, h4(&s[6..10])?)),
        9 if s[4] == b',' => Some((h4(&s[0..4])?, h4(&s[5..9])?)),
        8 => Some((h4(&s[0..4])?, h4(&s[4..8])?)),
        _ => None,
    }
}

/// Independent selector recogniser for the documented syntax `( key([item])? . )* key`, keys being
/// tag forms or table keywords, item an unsigned decimal fitting u32.
fn recognise_selector(s: &str, kw: &dyn Fn(&str) -> Option<(u16, u16)>) -> Option<Vec<((u16, u16), Option<u32>)>> {
    let parts: Vec<&str> = s.split('.').collect();
    let mut out = vec![];
    for (i, p) in parts.iter().enumerate() {
        let last = i + 1 == parts.len();
        let (key, idx) = if let Some(stripped) = p.strip_suffix(']') {
            let open = stripped.find('[')?;
            let digits = &stripped[open + 1..];
            if digits.is_empty() || !digits.bytes().all(|c| c.is_ascii_digit()) || digits.len() > 10 {
                return None;
            }
            let v: u64 = digits.parse().ok()?;
            if v > u32::MAX as u64 {
                return None;
            }
            (&stripped[..open], Some(v as u32))
        } else {
            (*p, None)
        };
        if last && idx.is_some() {
            return None;
        }
        let tag = recognise_tag(key.as_bytes()).or_else(|| kw(key))?;
        out.push((tag, if last { None } else { Some(idx.unwrap_or(0)) }));
    }
    Some(out)
}

fn sel_obs(sel: &AttributeSelector) -> Vec<((u16, u16), Option<u32>)> {
    sel.iter()
        .map(|s| match s {
            AttributeSelectorStep::Tag(t) => ((t.0, t.1), None),
            AttributeSelectorStep::Nested { tag, item } => ((tag.0, tag.1), Some(*item)),
        })
        .collect()
}

// ------------------------------------------------------------------------------------------------
// string enumeration
const SYMS: [&str; 14] = ["7", "c", "E", "g", "(", ")", ",", ".", "[", "]", " ", "\u{e9}", "\u{20ac}", "\u{1F600}"];
const SYMS_REDUCED: [&str; 7] = ["7", "c", "g", "(", ")", ",", "\u{e9}"];
/// the full alphabet without the four symbols that only matter to selectors
const SYMS_TAG10: [&str; 10] = ["7", "c", "E", "g", "(", ")", ",", "\u{e9}", "\u{20ac}", "\u{1F600}"];

/// One exhaustive string family: every string `start ++ w`, w over `syms`, byte length <= max;
/// only strings of byte length >= eval_min are evaluated (shorter ones belong to another family).
struct Fam {
    name: &'static str,
    syms: &'static [&'static str],
    start: &'static str,
    max: usize,
    eval_min: usize,
    sel_max: usize,
    /// strings starting with this byte belong to another family
    skip_first: Option<u8>,
}

#[derive(Default)]
struct Counts {
    n: u64,
    accepted: u64,
    sel_n: u64,
    sel_acc: u64,
    fails: u64,
}

fn eval_tag_string(l: &mut Local, fam: &str, s: &[u8], guarded: bool, c: &mut Counts) {
    // s is valid UTF-8 by construction
    let st = unsafe { std::str::from_utf8_unchecked(s) };
    let want = recognise_tag(s);
    let got: Result<Result<Tag, String>, String> = if guarded { guard(|| Tag::from_str(st).map_err(|e| e.to_string())) } else { Ok(Tag::from_str(st).map_err(|_| String::new())) };
    c.n += 1;
    if want.is_some() {
        c.accepted += 1;
    }
    let ok = match (&got, want) {
        (Ok(Ok(t)), Some(w)) => (t.0, t.1) == w,
        (Ok(Err(_)), None) => true,
        _ => false,
    };
    if !ok {
        c.fails += 1;
        if c.fails <= 8 {
            let kind = match &got {
                Err(_) => "panic",
                Ok(Ok(_)) => {
                    if want.is_some() {
                        "wrong-value"
                    } else {
                        "accepted-invalid"
                    }
                }
                Ok(Err(_)) => "rejected-valid",
            };
            let multibyte = s.iter().any(|b| *b >= 0x80);
            l.fail(
                &format!("str/{}", vx_core::hex(s).replace(' ', "")),
                json!({"family": "str", "sub": fam, "entry": "Tag::from_str", "kind": kind, "byte_len": s.len(), "multibyte": multibyte}),
                json!({"input": st, "bytes": vx_core::hex(s), "expected": format!("{want:?}"), "got": format!("{got:?}")}),
            );
        }
    }
}

fn eval_sel_string(l: &mut Local, s: &[u8], kw: &dyn Fn(&str) -> Option<(u16, u16)>, c: &mut Counts) {
    let st = std::str::from_utf8(s).unwrap();
    let want = recognise_selector(st, kw);
    let got = guard(|| StandardDataDictionary.parse_selector(st).map(|s| sel_obs(&s)).map_err(|e| e.to_string()));
    c.sel_n += 1;
    if want.is_some() {
        c.sel_acc += 1;
    }
    let ok = match (&got, &want) {
        (Ok(Ok(g)), Some(w)) => g == w,
        (Ok(Err(_)), None) => true,
        _ => false,
    };
    if !ok {
        c.fails += 1;
        if c.fails <= 8 {
            let kind = match &got {
                Err(_) => "panic",
                Ok(Ok(_)) => "accept-mismatch",
                Ok(Err(_)) => "rejected-valid",
            };
            l.fail(
                &format!("selstr/{}", vx_core::hex(s).replace(' ', "")),
                json!({"family": "str", "entry": "parse_selector", "kind": kind, "byte_len": s.len(), "multibyte": s.iter().any(|b| *b >= 0x80)}),
                json!({"input": st, "expected": format!("{want:?}"), "got": format!("{got:?}")}),
            );
        }
    }
}

fn rec(l: &mut Local, fam: &Fam, buf: &mut Vec<u8>, guarded: bool, descend: bool, kw: &dyn Fn(&str) -> Option<(u16, u16)>, c: &mut Counts) {
    if buf.len() >= fam.eval_min && (fam.skip_first.is_none() || buf.first().copied() != fam.skip_first) {
        eval_tag_string(l, fam.name, buf, guarded, c);
        if buf.len() <= fam.sel_max {
            eval_sel_string(l, buf, kw, c);
        }
    }
    if !descend {
        return;
    }
    for s in fam.syms.iter() {
        if buf.len() + s.len() > fam.max {
            continue;
        }
        let old = buf.len();
        buf.extend_from_slice(s.as_bytes());
        rec(l, fam, buf, guarded, true, kw, c);
        buf.truncate(old);
    }
}

/// all strings `start ++ (exactly k symbols)` of byte length <= max
fn prefixes(fam: &Fam, k: usize) -> Vec<Vec<u8>> {
    let mut out = vec![fam.start.as_bytes().to_vec()];
    for _ in 0..k {
        let mut next = vec![];
        for p in &out {
            for s in fam.syms.iter() {
                if p.len() + s.len() <= fam.max {
                    let mut q: Vec<u8> = p.clone();
                    q.extend_from_slice(s.as_bytes());
                    next.push(q);
                }
            }
        }
        out = next;
    }
    out
}

/// Near misses of the accepted forms: every string obtained from a well-formed tag text (each of the three
/// forms, two hex patterns) by at most two non-overlapping symbol substitutions that keep the byte length
/// (a k-byte scalar replaces k bytes), by one insertion of any symbol, or by one byte deletion — over the
/// full 14-symbol alphabet. This puts every separator/parenthesis/digit position of the 9- and 11-byte
/// forms under the full alphabet, which the length-bounded enumeration reaches only up to `full_max`.
fn edit_family() -> Vec<Vec<u8>> {
    let mut set = std::collections::BTreeSet::new();
    for form in 0..3u8 {
        for (g, e, case) in [(0x7C7Eu16, 0xE77Cu16, 2u8), (0x0010, 0xFFFF, 0)] {
            let t = tag_text(g, e, form, case).into_bytes();
            let n = t.len();
            set.insert(t.clone());
            for p1 in 0..n {
                for s1 in SYMS.iter() {
                    if p1 + s1.len() > n {
                        continue;
                    }
                    let mut a = t.clone();
                    a[p1..p1 + s1.len()].copy_from_slice(s1.as_bytes());
                    set.insert(a.clone());
                    for p2 in p1 + s1.len()..n {
                        for s2 in SYMS.iter() {
                            if p2 + s2.len() > n {
                                continue;
                            }
                            let mut b = a.clone();
                            b[p2..p2 + s2.len()].copy_from_slice(s2.as_bytes());
                            set.insert(b);
                        }
                    }
                }
            }
            for p in 0..=n {
                for s1 in SYMS.iter() {
                    let mut a = t[..p].to_vec();
                    a.extend_from_slice(s1.as_bytes());
                    a.extend_from_slice(&t[p..]);
                    set.insert(a);
                }
            }
            for p in 0..n {
                let mut a = t.clone();
                a.remove(p);
                set.insert(a);
            }
        }
    }
    set.into_iter().collect()
}

const SHARD_SYMS: usize = 3;

fn run_family(check: &Check, fam: &Fam, kw: &(dyn Fn(&str) -> Option<(u16, u16)> + Sync)) {
    let shards = prefixes(fam, SHARD_SYMS);
    // strings with fewer than SHARD_SYMS symbols after `start`
    let mut shorts = vec![];
    for k in 0..SHARD_SYMS {
        shorts.extend(prefixes(fam, k));
    }
    check.par_range(shards.len() as u64 + 1, |l, i| {
        let run = |l: &mut Local, guarded: bool| -> Counts {
            let mut c = Counts::default();
            if i == 0 {
                for p in &shorts {
                    let mut b = p.clone();
                    rec(l, fam, &mut b, guarded, false, kw, &mut c);
                }
            } else {
                let mut b = shards[i as usize - 1].clone();
                rec(l, fam, &mut b, guarded, true, kw, &mut c);
            }
            c
        };
        // fast path: one catch_unwind per shard; on a panic the shard is re-run with one per string
        let l_ptr: *mut Local = l;
        let c = match guard(|| run(unsafe { &mut *l_ptr }, false)) {
            Ok(c) => c,
            Err(_) => run(l, true),
        };
        l.evals(c.n + c.sel_n);
        l.nontrivial_distinct_by_construction(c.n + c.sel_n);
        l.outcome_n(&format!("str/{}/from_str/valid-form", fam.name), c.accepted);
        l.outcome_n(&format!("str/{}/from_str/not-a-tag", fam.name), c.n - c.accepted);
        l.outcome_n("str/parse_selector/valid", c.sel_acc);
        l.outcome_n("str/parse_selector/invalid", c.sel_n - c.sel_acc);
        if c.fails > 0 {
            l.outcome_n("str/MISMATCH", c.fails);
        }
    });
}

fn main() {
    let check = Check::from_args("C14", Level::Exploration);
    let dict = DictRef::load();
    // full 14-symbol alphabet up to full_max bytes; the longer strings (up to the 11 bytes of the longest
    // accepted form) over the 7-symbol alphabet (quick) / the 10 symbols that matter to tags (thorough)
    let full_max: usize = std::env::var("VERIF_C14_FULLMAX").ok().and_then(|s| s.parse().ok()).unwrap_or(check.pick(8, 9));
    let wide_long = check.thorough();
    let sel_str_max: usize = check.pick(6, 7);
    check.set_rule(&format!("tag family: boundary set = all 65 536 groups x elements {{0000,0010,00FF,1000,FFFF,=group}} and all 65 536 elements x the same groups, each in 3 forms x 3 hex cases through Tag::from_str and parse_tag, plus Display round trip; thorough adds all 2^32 tags in the Display form and the two other forms (upper case). str family: every string over the 14 symbols {{'7','c','E','g','(',')',',','.','[',']',' ', U+00E9, U+20AC, U+1F600}} of byte length <= {full_max} through Tag::from_str against a byte-level recogniser of the three forms (and <= {sel_str_max} bytes through parse_selector against a recogniser of the documented selector syntax), plus every string of byte length {}..11 over {}. sel family: all selectors of depth <= {} over 4 tags (standard with keyword, repeating-group keyword, private, unknown) x item indices {{0,1,10,4294967295}}, printed by Display and in every alternative spelling (3 tag forms, keyword, omitted [0]). kw family: every table keyword as single step, as nested step with index and as leaf under a nested step. Also every near miss of a well-formed tag text (<= 2 length-preserving symbol substitutions, one insertion, one deletion, full alphabet). A case is one string; distinct by its bytes; non-trivial = the parser ran on it", full_max + 1, if wide_long { "the 10 symbols without '.','[',']',' '" } else { "the reduced alphabet {'7','c','g','(',')',',', U+00E9}" }, check.pick(3, 4)));
    check.assume("byte-level recognisers written from the documented syntax (header.rs doc of FromStr for Tag; ops.rs AttributeSelector syntax)");
    let kw_map: std::collections::HashMap<&str, (u16, u16)> = dict.entries.iter().map(|e| (e.alias.as_str(), e.tag)).collect();
    let kw = |s: &str| -> Option<(u16, u16)> { kw_map.get(s).copied() };

    for (text, what) in [("(7fE0,0010)", "tag form 0, mixed case"), ("00100010", "tag form 2"), ("7c\u{20ac}777", "8 bytes, multi-byte scalar across byte 4"), ("(0010,001g)", "non-hex digit")] {
        check.sample(json!({"input": text, "what": what, "recogniser": format!("{:?}", recognise_tag(text.as_bytes())), "Tag::from_str": format!("{:?}", guard(|| Tag::from_str(text)))}));
    }
    // ---------------- tag family: boundary set ----------------
    let special = |x: u16| -> [u16; 6] { [0x0000, 0x0010, 0x00FF, 0x1000, 0xFFFF, x] };
    check.par_range(65536 * 2, |l, i| {
        let x = (i & 0xFFFF) as u16;
        let swap = i >> 16 == 1;
        let mut n = 0u64;
        let mut okc = 0u64;
        for y in special(x) {
            let (g, e) = if swap { (y, x) } else { (x, y) };
            // Display round trip
            let case_id = format!("tag/{g:04X}{e:04X}");
            if l.check.replaying() && !l.want(&case_id) {
                continue;
            }
            let shown = Tag(g, e).to_string();
            // the printed form must be one of the accepted forms (any hex case) denoting this tag
            if recognise_tag(shown.as_bytes()) != Some((g, e)) {
                l.fail(&case_id, json!({"family": "tag", "entry": "Display", "kind": "text"}), json!({"tag": [g, e], "display": shown}));
            }
            for form in 0..3u8 {
                for case in 0..3u8 {
                    let text = if form == 0 && case == 0 { shown.clone() } else { tag_text(g, e, form, case) };
                    n += 2;
                    let r = guard(|| (Tag::from_str(&text).ok(), StandardDataDictionary.parse_tag(&text)));
                    match r {
                        Ok((Some(a), Some(b))) if a == Tag(g, e) && b == Tag(g, e) => okc += 2,
                        other => {
                            l.fail(
                                &case_id,
                                json!({"family": "tag", "entry": "from_str/parse_tag", "kind": if other.is_err() { "panic" } else { "mismatch" }, "form": form, "case": case}),
                                json!({"text": text, "expected": [g, e], "got": format!("{other:?}")}),
                            );
                        }
                    }
                }
            }
        }
        l.evals(n);
        l.nontrivial_distinct_by_construction(n);
        l.outcome_n("tag/accepted-same-value", okc);
        if n > okc {
            l.outcome_n("tag/MISMATCH", n - okc);
        }
    });

    // ---------------- tag family: all 2^32 (thorough) ----------------
    if check.thorough() && !check.replaying() {
        check.par_range(65536, |l, gi| {
            let g = gi as u16;
            let mut bad = 0u64;
            for e in 0..=65535u16 {
                let t = Tag(g, e);
                let shown = t.to_string();
                let up = tag_text(g, e, 0, 0);
                let ok = recognise_tag(shown.as_bytes()) == Some((g, e)) && Tag::from_str(&shown) == Ok(t) && Tag::from_str(&up) == Ok(t) && Tag::from_str(&up[1..10]) == Ok(t) && {
                    let mut b = [0u8; 8];
                    b[..4].copy_from_slice(&up.as_bytes()[1..5]);
                    b[4..].copy_from_slice(&up.as_bytes()[6..10]);
                    Tag::from_str(std::str::from_utf8(&b).unwrap()) == Ok(t)
                };
                if !ok {
                    bad += 1;
                    if bad <= 4 {
                        l.fail(&format!("tag/{g:04X}{e:04X}"), json!({"family": "tag", "entry": "Display+from_str", "kind": "mismatch", "sweep": "all"}), json!({"tag": [g, e], "display": shown}));
                    }
                }
            }
            l.evals(65536 * 3);
            l.nontrivial_distinct_by_construction(65536 * 3);
            l.outcome_n("tag/all/roundtrip-ok", 65536 * 3 - bad);
            if bad > 0 {
                l.outcome_n("tag/all/MISMATCH", bad);
            }
        });
    }

    // ---------------- str family ----------------
    {
        let replay_str: Option<Vec<u8>> = check.replay.as_ref().and_then(|v| {
            let id = v.get("case_id")?.as_str()?;
            let h = id.strip_prefix("str/").or_else(|| id.strip_prefix("selstr/"))?;
            (0..h.len() / 2).map(|i| u8::from_str_radix(&h[2 * i..2 * i + 2], 16).ok()).collect()
        });
        if let Some(bytes) = replay_str {
            let mut l = check.local();
            l.eval();
            let mut c = Counts::default();
            if std::str::from_utf8(&bytes).is_ok() {
                eval_tag_string(&mut l, "replay", &bytes, true, &mut c);
                if bytes.len() <= sel_str_max {
                    eval_sel_string(&mut l, &bytes, &kw, &mut c);
                }
            }
        } else if !check.replaying() {
            let fams = [
                Fam { name: "full", syms: &SYMS, start: "", max: full_max, eval_min: 0, sel_max: sel_str_max, skip_first: None },
                Fam { name: "longer", syms: if wide_long { &SYMS_TAG10 } else { &SYMS_REDUCED }, start: "", max: 11, eval_min: full_max + 1, sel_max: 0, skip_first: None },
            ];
            for f in &fams {
                if f.max > 0 {
                    run_family(&check, f, &kw);
                }
            }
            let edits = edit_family();
            check.extra("edit_family_strings", json!(edits.len()));
            check.par_range(edits.len() as u64, |l, i| {
                let b = &edits[i as usize];
                let mut c = Counts::default();
                eval_tag_string(l, "edit", b, true, &mut c);
                eval_sel_string(l, b, &kw, &mut c);
                // parse_tag must agree with from_str on non-keywords
                let st = std::str::from_utf8(b).unwrap();
                let pt = guard(|| StandardDataDictionary.parse_tag(st).map(|t| (t.0, t.1)));
                if pt != Ok(recognise_tag(b)) {
                    c.fails += 1;
                    l.fail(&format!("str/{}", vx_core::hex(b).replace(' ', "")), json!({"family": "str", "sub": "edit", "entry": "parse_tag", "kind": "mismatch", "byte_len": b.len()}), json!({"input": st, "expected": format!("{:?}", recognise_tag(b)), "got": format!("{pt:?}")}));
                }
                l.evals(3);
                l.nontrivial_distinct_by_construction(3);
                l.outcome_n("str/edit/valid-form", c.accepted);
                l.outcome_n("str/edit/not-a-tag", c.n - c.accepted);
                if c.fails > 0 {
                    l.outcome_n("str/MISMATCH", c.fails);
                }
            });
        }
    }

    // ---------------- sel family ----------------
    {
        let depth = check.pick(3, 4);
        // (tag, keyword)
        let tags: [((u16, u16), Option<&str>); 4] = [((0x0040, 0xA730), Some("ContentSequence")), ((0x6000, 0x3000), Some("OverlayData")), ((0x0009, 0x1001), None), ((0xFFFA, 0xFFFA), Some("DigitalSignaturesSequence"))];
        for (t, k) in tags {
            if let Some(k) = k {
                if kw(k) != Some(t) {
                    check.machinery_error(&format!("sel alphabet: keyword {k} is not {t:?} in the extracted table"));
                }
            }
        }
        let items = [0u32, 1, 10, u32::MAX];
        // enumerate selectors: steps (tag index, item index) for the first d-1, tag index for the last
        let mut sels: Vec<Vec<(usize, usize)>> = vec![];
        for d in 1..=depth {
            let inner = 16usize.pow(d as u32 - 1);
            for code in 0..inner * 4 {
                let mut c = code;
                let mut steps = vec![];
                for _ in 0..d - 1 {
                    steps.push(((c % 16) / 4, c % 4));
                    c /= 16;
                }
                steps.push((c % 4, 0));
                sels.push(steps);
            }
        }
        check.extra("selectors", json!(sels.len()));
        check.par_range(sels.len() as u64, |l, si| {
            let steps = &sels[si as usize];
            let d = steps.len();
            let want: Vec<((u16, u16), Option<u32>)> = steps.iter().enumerate().map(|(i, (t, it))| (tags[*t].0, if i + 1 == d { None } else { Some(items[*it]) })).collect();
            let sel = AttributeSelector::new(want.iter().map(|(t, it)| match it {
                None => AttributeSelectorStep::Tag(Tag(t.0, t.1)),
                Some(i) => AttributeSelectorStep::Nested { tag: Tag(t.0, t.1), item: *i },
            }));
            let Some(sel) = sel else {
                l.check.machinery_error("AttributeSelector::new refused a well-formed step list");
                return;
            };
            // spellings: per step one of {paren upper, comma lower, plain mixed, keyword}; [0] shown or omitted
            let mut spellings: Vec<(String, String)> = vec![("display".into(), sel.to_string())];
            let n_forms = 4usize;
            let combos = n_forms.pow(d as u32);
            // all per-step combinations up to depth 2, a rotating choice beyond (keeps the product bounded)
            let list: Vec<usize> = if d <= 2 { (0..combos).collect() } else { (0..n_forms).map(|f| (0..d).fold(0, |acc, i| acc * n_forms + (f + i) % n_forms)).collect() };
            for code in list {
                for omit0 in [false, true] {
                    let mut c = code;
                    let mut parts = vec![];
                    let mut ok = true;
                    for (t, it) in want.iter() {
                        let f = c % n_forms;
                        c /= n_forms;
                        let key = match f {
                            0 => tag_text(t.0, t.1, 0, 0),
                            1 => tag_text(t.0, t.1, 1, 1),
                            2 => tag_text(t.0, t.1, 2, 2),
                            _ => match tags.iter().find(|x| x.0 == *t).and_then(|x| x.1) {
                                Some(k) => k.to_string(),
                                None => {
                                    ok = false;
                                    String::new()
                                }
                            },
                        };
                        match it {
                            Some(0) if omit0 => parts.push(key),
                            Some(i) => parts.push(format!("{key}[{i}]")),
                            None => parts.push(key),
                        }
                    }
                    if ok {
                        spellings.push((format!("alt{code}{}", if omit0 { "o" } else { "" }), parts.join(".")));
                    }
                }
            }
            spellings.dedup_by(|a, b| a.1 == b.1);
            for (sp, text) in spellings {
                let case_id = format!("sel/{si}/{sp}");
                if !l.want(&case_id) {
                    continue;
                }
                l.eval();
                let r = guard(|| StandardDataDictionary.parse_selector(&text));
                let class = |k: &str| json!({"family": "sel", "depth": d, "spelling": if sp == "display" { "display" } else { "alternative" }, "kind": k});
                match r {
                    Err(p) => {
                        l.outcome("sel/panic");
                        l.fail(&case_id, class("panic"), json!({"text": text, "message": p}));
                    }
                    Ok(Err(e)) => {
                        l.outcome("sel/rejected");
                        l.fail(&case_id, class("rejected"), json!({"text": text, "error": e.to_string(), "expected": format!("{want:?}")}));
                    }
                    Ok(Ok(got)) => {
                        l.nontrivial(&text);
                        if got != sel || sel_obs(&got) != want {
                            l.outcome("sel/mismatch");
                            l.fail(&case_id, class("mismatch"), json!({"text": text, "expected": format!("{want:?}"), "got": format!("{:?}", sel_obs(&got))}));
                        } else {
                            l.outcome(&format!("sel/ok/depth{d}"));
                        }
                    }
                }
            }
        });
    }

    // ---------------- kw family ----------------
    {
        let n = dict.entries.len() as u64;
        check.par_range(n, |l, i| {
            let e = &dict.entries[i as usize];
            let other = &dict.entries[((i + 1) % n) as usize];
            let texts = [
                ("alone", e.alias.clone(), vec![(e.tag, None)]),
                ("nested", format!("{}[3].{}", e.alias, other.alias), vec![(e.tag, Some(3)), (other.tag, None)]),
                ("nested0", format!("{}.{}", e.alias, tag_text(other.tag.0, other.tag.1, 0, 0)), vec![(e.tag, Some(0)), (other.tag, None)]),
                ("leaf", format!("(0040,A730)[1].{}", e.alias), vec![((0x0040, 0xA730), Some(1)), (e.tag, None)]),
            ];
            for (pos, text, want) in texts {
                let case_id = format!("kw/{}/{pos}", e.alias);
                if !l.want(&case_id) {
                    continue;
                }
                l.eval();
                let r = guard(|| (StandardDataDictionary.parse_selector(&text).map(|s| (sel_obs(&s), s.to_string())), StandardDataDictionary.parse_tag(&e.alias)));
                let class = |k: &str| json!({"family": "kw", "position": pos, "kind": k, "entry_kind": format!("{:?}", e.kind)});
                match r {
                    Err(p) => {
                        l.outcome("kw/panic");
                        l.fail(&case_id, class("panic"), json!({"text": text, "message": p}));
                    }
                    Ok((Err(err), _)) => {
                        l.outcome("kw/rejected");
                        l.fail(&case_id, class("rejected"), json!({"text": text, "error": err.to_string()}));
                    }
                    Ok((Ok((got, printed)), pt)) => {
                        l.nontrivial(&case_id);
                        if got != want {
                            l.outcome("kw/mismatch");
                            l.fail(&case_id, class("mismatch"), json!({"text": text, "expected": format!("{want:?}"), "got": format!("{got:?}")}));
                        } else if pt != Some(Tag(e.tag.0, e.tag.1)) {
                            l.outcome("kw/parse_tag-mismatch");
                            l.fail(&case_id, class("parse_tag"), json!({"keyword": e.alias, "expected": format!("{:?}", e.tag), "got": format!("{pt:?}")}));
                        } else {
                            // and the printed form of what was parsed parses back to the same selector
                            match guard(|| StandardDataDictionary.parse_selector(&printed).map(|s| sel_obs(&s))) {
                                Ok(Ok(again)) if again == want => l.outcome(&format!("kw/ok/{pos}")),
                                other => {
                                    l.outcome("kw/reprint-mismatch");
                                    l.fail(&case_id, class("reprint"), json!({"text": text, "printed": printed, "got": format!("{other:?}")}));
                                }
                            }
                        }
                    }
                }
            }
        });
    }
    check.finish();
}
