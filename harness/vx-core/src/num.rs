//! Exact-arithmetic oracles for numeric conversions (C11): integer ranges in i128, independent decimal
//! text recogniser/parsers, correctly rounded integer -> binary float conversion by bit manipulation,
//! and the semantics of Rust `as` casts re-stated in i128 arithmetic.

#[derive(Clone, Copy, Debug, PartialEq, Eq, Hash, PartialOrd, Ord)]
pub enum IntTy {
    U8,
    I8,
    U16,
    I16,
    U32,
    I32,
    U64,
    I64,
}
pub const INT_TYS: [IntTy; 8] = [IntTy::U8, IntTy::I8, IntTy::U16, IntTy::I16, IntTy::U32, IntTy::I32, IntTy::U64, IntTy::I64];

impl IntTy {
    pub fn bits(self) -> u32 {
        match self {
            IntTy::U8 | IntTy::I8 => 8,
            IntTy::U16 | IntTy::I16 => 16,
            IntTy::U32 | IntTy::I32 => 32,
            IntTy::U64 | IntTy::I64 => 64,
        }
    }
    pub fn signed(self) -> bool {
        matches!(self, IntTy::I8 | IntTy::I16 | IntTy::I32 | IntTy::I64)
    }
    pub fn min(self) -> i128 {
        if self.signed() {
            -(1i128 << (self.bits() - 1))
        } else {
            0
        }
    }
    pub fn max(self) -> i128 {
        if self.signed() {
            (1i128 << (self.bits() - 1)) - 1
        } else {
            (1i128 << self.bits()) - 1
        }
    }
    pub fn fits(self, n: i128) -> bool {
        n >= self.min() && n <= self.max()
    }
    pub fn name(self) -> &'static str {
        match self {
            IntTy::U8 => "u8",
            IntTy::I8 => "i8",
            IntTy::U16 => "u16",
            IntTy::I16 => "i16",
            IntTy::U32 => "u32",
            IntTy::I32 => "i32",
            IntTy::U64 => "u64",
            IntTy::I64 => "i64",
        }
    }
    /// Integer -> integer `as` cast: keep the low `bits` bits, reinterpret in the target signedness.
    pub fn wrap(self, n: i128) -> i128 {
        let m = 1i128 << self.bits();
        let r = n.rem_euclid(m);
        if self.signed() && r >= m / 2 {
            r - m
        } else {
            r
        }
    }
    /// Float -> integer `as` cast: truncate toward zero, saturate at the bounds, NaN -> 0.
    pub fn sat_from_f64(self, x: f64) -> i128 {
        if x.is_nan() {
            return 0;
        }
        if x >= self.max() as f64 {
            // (max as f64) may round up to max+1; any x at or above it saturates
            return self.max();
        }
        if x <= self.min() as f64 {
            return self.min();
        }
        let t = x.trunc();
        // |t| < 2^64 here: exact in i128
        let v = t as i128;
        v.clamp(self.min(), self.max())
    }
}

/// Trim what the property statement names: spaces and NULs, on both ends.
pub fn trim_sp_nul(s: &str) -> &str {
    s.trim_matches(|c| c == ' ' || c == '\0')
}

/// Integer text `[+-]?[0-9]+` -> exact value (None if not of that form or absurdly long).
pub fn parse_int_text(s: &str) -> Option<i128> {
    let b = s.as_bytes();
    let (neg, digits) = match b.first() {
        Some(b'+') => (false, &b[1..]),
        Some(b'-') => (true, &b[1..]),
        _ => (false, b),
    };
    if digits.is_empty() || digits.len() > 30 || !digits.iter().all(|c| c.is_ascii_digit()) {
        return None;
    }
    let mut v: i128 = 0;
    for c in digits {
        v = v * 10 + (c - b'0') as i128;
    }
    Some(if neg { -v } else { v })
}

/// Decimal text `[+-]?digits[.digits]` (at least one digit overall, no exponent) whose value is exactly
/// representable as mantissa / 10^k with mantissa < 2^53 and k <= 22: then the IEEE division
/// `mantissa as f64 / 10^k as f64` is correctly rounded (both operands exact). Returns None for other text.
pub fn parse_simple_decimal(s: &str) -> Option<f64> {
    let b = s.as_bytes();
    let (neg, rest) = match b.first() {
        Some(b'+') => (false, &b[1..]),
        Some(b'-') => (true, &b[1..]),
        _ => (false, b),
    };
    let (ip, fp) = match rest.iter().position(|&c| c == b'.') {
        Some(p) => (&rest[..p], &rest[p + 1..]),
        None => (rest, &rest[rest.len()..]),
    };
    if ip.is_empty() && fp.is_empty() {
        return None;
    }
    if !ip.iter().chain(fp.iter()).all(|c| c.is_ascii_digit()) {
        return None;
    }
    let mut mant: u128 = 0;
    for c in ip.iter().chain(fp.iter()) {
        mant = mant.checked_mul(10)?.checked_add((c - b'0') as u128)?;
    }
    let k = fp.len();
    if k > 22 {
        return None;
    }
    // mantissa must be exactly representable in f64
    if mant != 0 {
        let tz = mant.trailing_zeros();
        if 128 - mant.leading_zeros() - tz > 53 {
            return None;
        }
    }
    let m = u128_to_f64_exact(mant)?;
    let mut p = 1.0f64;
    for _ in 0..k {
        p *= 10.0; // exact up to 10^22
    }
    let v = m / p;
    Some(if neg { -v } else { v })
}

fn u128_to_f64_exact(m: u128) -> Option<f64> {
    if m == 0 {
        return Some(0.0);
    }
    let (bits, _inexact) = round_to_float(m, 52, 1023, 2046);
    Some(f64::from_bits(bits))
}

/// Round-to-nearest-even of a positive integer to a binary float with `mbits` mantissa bits;
/// returns (bit pattern without sign, inexact?). Overflow gives the infinity pattern.
fn round_to_float(m: u128, mbits: u32, bias: u32, max_exp_field: u32) -> (u64, bool) {
    debug_assert!(m > 0);
    let top = 127 - m.leading_zeros(); // position of the leading one
    let (mant, inexact, mut exp) = if top <= mbits {
        ((m << (mbits - top)) as u64, false, top)
    } else {
        let shift = top - mbits;
        let kept = (m >> shift) as u64;
        let rem = m & ((1u128 << shift) - 1);
        let half = 1u128 << (shift - 1);
        let mut k = kept;
        if rem > half || (rem == half && (kept & 1) == 1) {
            k += 1;
        }
        (k, rem != 0, top)
    };
    let mut mant = mant;
    if mant >> (mbits + 1) != 0 {
        // rounding carried into a new bit
        mant >>= 1;
        exp += 1;
    }
    let field = exp + bias;
    if field > max_exp_field {
        return ((((max_exp_field + 1) as u64) << mbits), true);
    }
    (((field as u64) << mbits) | (mant & ((1u64 << mbits) - 1)), inexact)
}

/// Nearest f64 (ties to even) of an integer.
pub fn nearest_f64(n: i128) -> f64 {
    if n == 0 {
        return 0.0;
    }
    let (bits, _) = round_to_float(n.unsigned_abs(), 52, 1023, 2046);
    let v = f64::from_bits(bits);
    if n < 0 {
        -v
    } else {
        v
    }
}

/// Nearest f32 (ties to even) of an integer.
pub fn nearest_f32(n: i128) -> f32 {
    if n == 0 {
        return 0.0;
    }
    let (bits, _) = round_to_float(n.unsigned_abs(), 23, 127, 254);
    let v = f32::from_bits(bits as u32);
    if n < 0 {
        -v
    } else {
        v
    }
}

/// Nearest f32 of an f64 (ties to even), computed from the bit pattern; overflow -> infinity.
pub fn f64_to_f32_nearest(x: f64) -> f32 {
    if x.is_nan() {
        return f32::NAN;
    }
    if x.is_infinite() {
        return if x.is_sign_negative() { f32::NEG_INFINITY } else { f32::INFINITY };
    }
    if x == 0.0 {
        return if x.is_sign_negative() { -0.0 } else { 0.0 };
    }
    let bits = x.to_bits();
    let neg = bits >> 63 == 1;
    let e = ((bits >> 52) & 0x7FF) as i32;
    let frac = bits & ((1u64 << 52) - 1);
    // value = mant * 2^(exp2), mant a 53-bit integer (or subnormal)
    let (mant, exp2) = if e == 0 { (frac, -1074) } else { (frac | (1u64 << 52), e - 1075) };
    // target: f32 normal exponent range [-126, 127], 24-bit significand; subnormals down to 2^-149
    let top = 63 - mant.leading_zeros() as i32; // leading one position
    let val_exp = top + exp2; // floor(log2(value))
    let min_shift_exp = if val_exp >= -126 { val_exp - 23 } else { -149 };
    // we want integer q = round(value / 2^min_shift_exp)
    let sh = min_shift_exp - exp2; // right shift amount applied to mant
    let q: u64 = if sh <= 0 {
        mant << (-sh) as u32
    } else if sh >= 64 {
        0
    } else {
        let kept = mant >> sh;
        let rem = mant & ((1u64 << sh) - 1);
        let half = 1u64 << (sh - 1);
        if rem > half || (rem == half && kept & 1 == 1) {
            kept + 1
        } else {
            kept
        }
    };
    // q * 2^min_shift_exp, q <= 2^24
    let mut v = q as f32; // exact: q <= 2^24
    let mut k = min_shift_exp;
    // scale by powers of two in steps that stay representable
    while k > 0 {
        let step = k.min(60);
        v *= (1u64 << step) as f32;
        k -= step;
        if v.is_infinite() {
            break;
        }
    }
    while k < 0 {
        let step = (-k).min(60);
        v /= (1u64 << step) as f32;
        k += step;
    }
    if neg {
        -v
    } else {
        v
    }
}

/// Does the finite f64 lie within the finite f32 range after rounding?
pub fn f64_fits_f32(x: f64) -> bool {
    !x.is_finite() || f64_to_f32_nearest(x).is_finite()
}

#[cfg(test)]
mod tests {
    use super::*;
    #[test]
    fn wrap_and_fit() {
        assert_eq!(IntTy::U8.wrap(-1), 255);
        assert_eq!(IntTy::I8.wrap(255), -1);
        assert_eq!(IntTy::I16.wrap(65535), -1);
        assert_eq!(IntTy::U64.wrap(-1), u64::MAX as i128);
        assert!(IntTy::I64.fits(i64::MIN as i128) && !IntTy::I64.fits(i64::MAX as i128 + 1));
        assert_eq!(IntTy::U8.sat_from_f64(1.5), 1);
        assert_eq!(IntTy::U8.sat_from_f64(-2.0), 0);
        assert_eq!(IntTy::I16.sat_from_f64(-2.9), -2);
        assert_eq!(IntTy::I64.sat_from_f64(1e30), i64::MAX as i128);
        assert_eq!(IntTy::U64.sat_from_f64(1.8446744073709552e19), u64::MAX as i128);
    }
    #[test]
    fn floats() {
        assert_eq!(nearest_f64(1 << 53), 9007199254740992.0);
        assert_eq!(nearest_f64((1 << 53) + 1), 9007199254740992.0);
        assert_eq!(nearest_f64((1 << 53) + 3), 9007199254740996.0);
        assert_eq!(nearest_f32(16777217), 16777216.0);
        assert_eq!(nearest_f32(16777219), 16777220.0);
        assert_eq!(nearest_f32(-1), -1.0);
        assert_eq!(nearest_f64(u64::MAX as i128), 18446744073709551616.0);
        assert_eq!(nearest_f32(u64::MAX as i128), 18446744073709551616.0f32);
        assert_eq!(parse_simple_decimal("1.5"), Some(1.5));
        assert_eq!(parse_simple_decimal("-6.75"), Some(-6.75));
        assert_eq!(parse_simple_decimal("0.1"), Some(0.1));
        assert_eq!(parse_simple_decimal("9223372036854775808"), Some(9223372036854775808.0));
        assert_eq!(parse_simple_decimal("x"), None);
        assert_eq!(parse_simple_decimal(""), None);
        assert_eq!(f64_to_f32_nearest(1.5), 1.5f32);
        assert_eq!(f64_to_f32_nearest(0.1), 0.1f32);
        assert_eq!(f64_to_f32_nearest(-0.1), -0.1f32);
        assert_eq!(f64_to_f32_nearest(1e39), f32::INFINITY);
        assert_eq!(f64_to_f32_nearest(3.4028235677973366e38), f32::INFINITY); // f32::MAX + half ulp -> ties to even -> inf
        assert_eq!(f64_to_f32_nearest(3.4028234663852886e38), f32::MAX);
        assert_eq!(f64_to_f32_nearest(1e-46), 0.0f32);
        assert_eq!(f64_to_f32_nearest(1e-45), f32::from_bits(1));
        assert_eq!(f64_to_f32_nearest(16777217.0), 16777216.0f32);
    }
}
