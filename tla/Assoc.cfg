\* one run covers both modes: the initial state fixes `conf` (general mode / conforming-SCP mode)
CONSTANTS
  Budget = 4
  Cap = 2
INIT Init
NEXT Next
CHECK_DEADLOCK FALSE
INVARIANTS
  TypeOK
  I1
  I2
  I3
  I4
  I5
