\* general mode: both peers are arbitrary users of the association API (library check, parts 2 and 3)
CONSTANTS
  Budget = 4
  Conforming = FALSE
INIT Init
NEXT Next
CHECK_DEADLOCK FALSE
INVARIANTS
  TypeOK
  I1
  I2
  I3
  I4
  I5
