------------------------------- MODULE Assoc -------------------------------
(***************************************************************************)
(* C30: release and abort of a DICOM upper-layer association (PS3.8 9.2,   *)
(* states Sta6 / Sta7 / Sta8 / Sta13 and the way back to Sta1), as seen at *)
(* the PDU level by the two users of dicom-rs association objects.         *)
(*                                                                         *)
(* Two peers: the requestor "R" and the acceptor "A", joined by one        *)
(* connection = two FIFO channels.  chan[s] holds the PDUs that s has put  *)
(* on the wire and that the other side has not yet been handed by a        *)
(* receive.  A peer performs at most `Budget` API actions (send, receive,  *)
(* release, abort, release reply) and then lets the association go         *)
(* (`Drop`, always possible, costs nothing), which bounds the channels at  *)
(* `Budget` PDUs and makes the graph finite and small.  (In conforming-SCP *)
(* mode, used for the storescp tool, nothing is budgeted; there a channel  *)
(* holds at most `Cap` PDUs, which a lock-step requestor never exceeds.)   *)
(*                                                                         *)
(* Every sub-action of Next is a named definition  <side>_<Action>[_<kind>] *)
(* that applies one operator to literal arguments, e.g. Recv("A", "RRQ").   *)
(* TLC's  -dump dot,actionlabels  writes that operator application (or the *)
(* name) on the edges of the state graph, and it determines the observable *)
(* events of the step (tla/graph2nfa.py, function `events`).               *)
(*                                                                         *)
(* dicom-rs's documented choices that the model follows:                   *)
(*  - release() is one call, two protocol steps: put A-RELEASE-RQ, then    *)
(*    take the next PDU; A-RELEASE-RP completes it and closes; anything    *)
(*    else (P-DATA, A-RELEASE-RQ = release collision, A-ABORT, a PDU of    *)
(*    unknown type) or an end                                              *)
(*    of stream makes it fail and the connection is closed (the object is  *)
(*    consumed);                                                           *)
(*  - abort() puts A-ABORT and closes;                                     *)
(*  - an application that is handed an A-ABORT or an end of stream by      *)
(*    receive lets the association go (closes);                            *)
(*  - an application that answers A-RELEASE-RQ puts A-RELEASE-RP and lets  *)
(*    the association go (Sta13: only the transport close remains).        *)
(* Closing a side discards what was in flight towards it, and what is put  *)
(* towards a closed side is lost.                                          *)
(***************************************************************************)
EXTENDS Naturals, Sequences

CONSTANTS Budget,      \* API actions per side (general mode)
          Cap          \* PDUs in flight per direction (conforming-SCP mode, which has no budget)

Sides == {"R", "A"}
Other(s) == IF s = "R" THEN "A" ELSE "R"
Kinds == {"DATA", "RRQ", "RRP", "ABORT", "UNK"}   \* UNK: a PDU of an unrecognised type
Live == {"Est", "AwaitRP"}
Ended == {"Released", "Failed", "Aborted", "Closed"}

VARIABLES st,    \* st[s]   : protocol state of side s
          open,  \* open[s] : s's end of the connection is open
          chan,  \* chan[s] : PDUs put by s, not yet taken by Other(s)
          left,  \* left[s] : API actions s may still perform
          pend,  \* pend[s] : s has taken an A-RELEASE-RQ it has not answered
          hist,  \* hist[s] : history flags used by the invariants only
          conf   \* mode, fixed by the initial state.  TRUE: "A" behaves as a conforming SCP: after
                 \* taking an A-RELEASE-RQ its next and only action is the release reply.
                 \* FALSE: both peers are arbitrary users of the association API.

vars == <<st, open, chan, left, pend, hist, conf>>
Conforming == conf

NoHist == [rrq |-> FALSE, rrp |-> FALSE, late |-> FALSE, viol |-> FALSE, unk |-> FALSE]

Init == /\ st = [s \in Sides |-> "Est"]
        /\ open = [s \in Sides |-> TRUE]
        /\ chan = [s \in Sides |-> <<>>]
        /\ left = [s \in Sides |-> Budget]
        /\ pend = [s \in Sides |-> FALSE]
        /\ hist = [s \in Sides |-> NoHist]
        /\ conf \in BOOLEAN

TypeOK == /\ st \in [Sides -> Live \cup Ended]
          /\ open \in [Sides -> BOOLEAN]
          /\ \A s \in Sides : /\ chan[s] \in Seq(Kinds)
                              /\ Len(chan[s]) <= Budget
          /\ left \in [Sides -> 0..Budget]
          /\ pend \in [Sides -> BOOLEAN]
          /\ conf \in BOOLEAN

(***************************************************************************)
(* Building blocks.  A step of side s is described by: the PDU it puts (or *)
(* "-"), whether it takes the head of the incoming channel, its new        *)
(* protocol state, whether it closes its end, and what it costs.           *)
(***************************************************************************)
Step(s, put, take, newst, closes, cost, newpend) ==
    LET o == Other(s)
        out == IF put # "-" /\ open[o] THEN Append(chan[s], put) ELSE chan[s]
        inc == IF closes THEN <<>> ELSE IF take THEN Tail(chan[o]) ELSE chan[o]
        c == IF conf THEN 0 ELSE cost       \* the SCP mode is not budgeted: it is bounded by Cap
    IN  /\ UNCHANGED conf
        /\ open[s]
        /\ left[s] >= c
        /\ (put # "-" /\ conf) => Len(chan[s]) < Cap
        /\ chan' = [chan EXCEPT ![s] = out, ![o] = inc]
        /\ st'   = [st EXCEPT ![s] = newst]
        /\ open' = [open EXCEPT ![s] = ~closes]
        /\ left' = [left EXCEPT ![s] = @ - c]
        /\ pend' = [pend EXCEPT ![s] = newpend]
        /\ hist' = [hist EXCEPT ![s] =
                      [rrq  |-> @.rrq \/ put = "RRQ",
                       rrp  |-> @.rrp \/ (take /\ st[s] = "AwaitRP" /\ Head(chan[o]) = "RRP"),
                       late |-> @.late \/ (put # "-" /\ st[s] \in Ended),
                       viol |-> @.viol \/ (put \notin {"-", "RRP"} /\ pend[s]),
                       unk  |-> @.unk \/ put = "UNK"]]

\* In conforming-SCP mode the acceptor with an unanswered release request does nothing but reply
Free(s) == ~(Conforming /\ s = "A" /\ pend[s])

HeadIs(s, k) == chan[Other(s)] # <<>> /\ Head(chan[Other(s)]) = k
AtEof(s)     == chan[Other(s)] = <<>> /\ ~open[Other(s)]

SendData(s) == /\ st[s] = "Est" /\ Free(s)
               /\ Step(s, "DATA", FALSE, "Est", FALSE, 1, pend[s])

\* a PDU of a type the standard does not define (the library can write and read one)
\* (at most one per side: it behaves like one more kind of data and only has to be seen once by
\* every receiving state)
SendUnk(s) == /\ st[s] = "Est" /\ Free(s) /\ (~hist[s].unk \/ conf)
              /\ Step(s, "UNK", FALSE, "Est", FALSE, 1, pend[s])

\* receive() hands the application the head PDU
Recv(s, k) == /\ st[s] = "Est" /\ Free(s) /\ HeadIs(s, k)
              /\ IF k = "ABORT"
                   THEN Step(s, "-", TRUE, "Aborted", TRUE, 1, pend[s])
                   ELSE Step(s, "-", TRUE, "Est", FALSE, 1, pend[s] \/ k = "RRQ")
RecvEof(s) == /\ st[s] = "Est" /\ Free(s) /\ AtEof(s)
              /\ Step(s, "-", FALSE, "Closed", TRUE, 1, pend[s])

\* release(): first half
ReleaseReq(s) == /\ st[s] = "Est" /\ Free(s)
                 /\ Step(s, "RRQ", FALSE, "AwaitRP", FALSE, 1, pend[s])
\* release(): second half
Wait(s, k) == /\ st[s] = "AwaitRP" /\ HeadIs(s, k)
              /\ Step(s, "-", TRUE, IF k = "RRP" THEN "Released" ELSE "Failed", TRUE, 0, pend[s])
WaitEof(s) == /\ st[s] = "AwaitRP" /\ AtEof(s)
              /\ Step(s, "-", FALSE, "Failed", TRUE, 0, pend[s])

\* answer to a release request: A-RELEASE-RP, then only the close remains
Rsp(s) == /\ st[s] = "Est" /\ pend[s]
          /\ Step(s, "RRP", FALSE, "Closed", TRUE, IF Conforming THEN 0 ELSE 1, FALSE)

Abort(s) == /\ st[s] = "Est" /\ Free(s)
            /\ Step(s, "ABORT", FALSE, "Aborted", TRUE, 1, pend[s])

Drop(s) == /\ st[s] = "Est" /\ Free(s)
           /\ Step(s, "-", FALSE, "Closed", TRUE, 0, pend[s])

(***************************************************************************)
(* Named sub-actions (the labels of the dumped graph).                     *)
(***************************************************************************)
R_Send       == SendData("R")
R_SendUnk    == SendUnk("R")
R_Recv_DATA  == Recv("R", "DATA")
R_Recv_RRQ   == Recv("R", "RRQ")
R_Recv_RRP   == Recv("R", "RRP")
R_Recv_ABORT == Recv("R", "ABORT")
R_Recv_UNK   == Recv("R", "UNK")
R_Recv_EOF   == RecvEof("R")
R_RelReq     == ReleaseReq("R")
R_Wait_RRP   == Wait("R", "RRP")
R_Wait_DATA  == Wait("R", "DATA")
R_Wait_RRQ   == Wait("R", "RRQ")
R_Wait_ABORT == Wait("R", "ABORT")
R_Wait_UNK   == Wait("R", "UNK")
R_Wait_EOF   == WaitEof("R")
R_Rsp        == Rsp("R")
R_Abort      == Abort("R")
R_Drop       == Drop("R")

A_Send       == SendData("A")
A_SendUnk    == SendUnk("A")
A_Recv_DATA  == Recv("A", "DATA")
A_Recv_RRQ   == Recv("A", "RRQ")
A_Recv_RRP   == Recv("A", "RRP")
A_Recv_ABORT == Recv("A", "ABORT")
A_Recv_UNK   == Recv("A", "UNK")
A_Recv_EOF   == RecvEof("A")
A_RelReq     == ReleaseReq("A")
A_Wait_RRP   == Wait("A", "RRP")
A_Wait_DATA  == Wait("A", "DATA")
A_Wait_RRQ   == Wait("A", "RRQ")
A_Wait_ABORT == Wait("A", "ABORT")
A_Wait_UNK   == Wait("A", "UNK")
A_Wait_EOF   == WaitEof("A")
A_Rsp        == Rsp("A")
A_Abort      == Abort("A")
A_Drop       == Drop("A")

Next == \/ R_Send \/ R_SendUnk \/ R_Recv_UNK \/ R_Wait_UNK \/ R_Recv_DATA \/ R_Recv_RRQ \/ R_Recv_RRP \/ R_Recv_ABORT \/ R_Recv_EOF
        \/ R_RelReq \/ R_Wait_RRP \/ R_Wait_DATA \/ R_Wait_RRQ \/ R_Wait_ABORT \/ R_Wait_EOF
        \/ R_Rsp \/ R_Abort \/ R_Drop
        \/ A_Send \/ A_SendUnk \/ A_Recv_UNK \/ A_Wait_UNK \/ A_Recv_DATA \/ A_Recv_RRQ \/ A_Recv_RRP \/ A_Recv_ABORT \/ A_Recv_EOF
        \/ A_RelReq \/ A_Wait_RRP \/ A_Wait_DATA \/ A_Wait_RRQ \/ A_Wait_ABORT \/ A_Wait_EOF
        \/ A_Rsp \/ A_Abort \/ A_Drop

Spec == Init /\ [][Next]_vars

(***************************************************************************)
(* The invariants of the statement.                                        *)
(***************************************************************************)
\* (I1) a release completes only after a release reply was taken after the own request
I1 == \A s \in Sides : st[s] = "Released" => hist[s].rrq /\ hist[s].rrp
\* (I2) nothing is put on the wire by a side whose association has ended
\*      (in particular no data transfer follows a completed release)
I2 == \A s \in Sides : ~hist[s].late
\* (I3) a failed release (abort, unexpected PDU, end of stream while waiting) and every other
\*      ending leaves the connection closed once the step has completed
I3 == \A s \in Sides : st[s] \in Ended => ~open[s]
\* (I4) conforming SCP: a release request taken by A is followed by the reply as A's next emission
I4 == Conforming => ~hist["A"].viol
\* a closed side holds nothing in flight towards it
I5 == \A s \in Sides : ~open[s] => chan[Other(s)] = <<>>
=============================================================================
