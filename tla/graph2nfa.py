#!/usr/bin/env python3
"""C30: turn TLC's state graph of tla/Assoc.tla into an automaton over observable events.

  graph2nfa.py build  <Assoc.dot> <out.json> [--conf TRUE|FALSE] [--log <tlc stdout>] [--also TRUE|FALSE <out2.json>]
                                                                    write graph + NFA as JSON for the part of the
                                                                    graph reachable from the initial state with that
                                                                    mode (default FALSE = general mode)
  graph2nfa.py accept <out.json> [--complete] ev ev ...             exit 0 iff the event trace is a behaviour
  graph2nfa.py paths  <out.json> <k> [--count]                      every path of <= k steps from the initial
                                                                    state that cannot be extended within k
                                                                    (one line per path: action labels)

The dot file is produced by   tlc -dump dot,actionlabels <file> ...  ; every edge carries the name of the
sub-action that produced it, with its arguments: SendData("R"), Recv("A","RRQ"), ...
An action stands for a fixed list of observable events (table EVENTS; the vocabulary of DESIGN.md C30):

  put(s,k)      a complete PDU of kind k was written by s            k in DATA RRQ RRP ABORT UNK
  take(s,k)     an API call of s was handed PDU k (receive, or the receive inside release)
  ret(s,op,c)   API call op of s returned with class c               op in send receive release abort
  close(s)      s's end of the connection was closed (close(), shutdown() or drop)
  eof(s)        a read of s returned 0 bytes

The order inside one list is the order in which an observer of the real code sees the events: release()
and abort() consume the association object, so the connection is closed (explicitly, or because the object
is dropped at the end of the call) *before* the caller sees the result; what release() took is known from
that result (Ok = the reply, or the PDU carried by the error). After receive() the application itself lets
the association go, so there the close comes last.  The NFA has one chain of fresh states per edge; every state is accepting
for prefixes, and `final` marks the model states in which both sides have ended.
"""
import json
import re
import sys


def events(action, s, k):
    E = {
        "SendData": [f"put({s},DATA)", f"ret({s},send,Ok)"],
        "SendUnk": [f"put({s},UNK)", f"ret({s},send,Ok)"],
        "Recv": [f"take({s},{k})", f"ret({s},receive,Ok)"] + ([f"close({s})"] if k == "ABORT" else []),
        "RecvEof": [f"eof({s})", f"ret({s},receive,Closed)", f"close({s})"],
        "ReleaseReq": [f"put({s},RRQ)"],
        "Wait": [f"close({s})", f"take({s},{k})", f"ret({s},release,{'Ok' if k == 'RRP' else 'Unknown' if k == 'UNK' else 'Unexpected'})"],
        "WaitEof": [f"eof({s})", f"close({s})", f"ret({s},release,Closed)"],
        "Rsp": [f"put({s},RRP)", f"ret({s},send,Ok)", f"close({s})"],
        "Abort": [f"put({s},ABORT)", f"close({s})", f"ret({s},abort,Ok)"],
        "Drop": [f"close({s})"],
    }
    return E[action]


NODE = re.compile(r'^(-?\d+) \[label="((?:[^"\\]|\\.)*)"(,style = filled)?')
EDGE = re.compile(r'^(-?\d+) -> (-?\d+) \[label="((?:[^"\\]|\\.)*)",')
# wrapper names of Assoc.tla, in case a TLC version prints them instead of the inner operator
WRAP = {"Send": "SendData", "RelReq": "ReleaseReq"}


def parse_label(lab):
    lab = lab.replace('\\"', '"')
    m = re.match(r'^(\w+)\("([RA])"(?:,\s*"(\w+)")?\)$', lab)
    if m:
        return m.group(1), m.group(2), m.group(3) or ""
    m = re.match(r'^([RA])_(\w+?)(?:_(DATA|RRQ|RRP|ABORT|UNK|EOF))?$', lab)
    if m:
        s, a, k = m.group(1), m.group(2), m.group(3) or ""
        a = WRAP.get(a, a)
        if k == "EOF":
            a, k = a + "Eof", ""
        return a, s, k
    raise SystemExit(f"graph2nfa: cannot interpret edge label {lab!r}")


def parse_state(txt):
    """st and open of a printed TLC state"""
    txt = txt.replace('\\n', ' ').replace('\\"', '"').replace('\\\\', '\\')
    st = re.search(r'st = \[R \|-> "(\w+)", A \|-> "(\w+)"\]', txt)
    op = re.search(r'open = \[R \|-> (\w+), A \|-> (\w+)\]', txt)
    if not st or not op:
        raise SystemExit("graph2nfa: cannot read st/open from a state label")
    return {"R": st.group(1), "A": st.group(2)}, {"R": op.group(1) == "TRUE", "A": op.group(2) == "TRUE"}, txt


def read_dot(dot):
    """(nodes: id -> printed state, filled: ids of initial states, edges)"""
    nodes, filled, edges = {}, [], []
    with open(dot) as f:
        for line in f:
            sp = line.find(' ')
            if sp <= 0 or not (line[0] == '-' or line[0].isdigit()):
                continue
            if line.startswith('-> ', sp + 1):
                m = EDGE.match(line)
                if not m:
                    raise SystemExit(f"graph2nfa: cannot read edge line {line[:120]!r}")
                edges.append((m.group(1), m.group(2), parse_label(m.group(3))))
                continue
            nid = line[:sp]
            if nid in nodes:
                continue
            a = line.find('[label="', sp)
            if a < 0:
                continue
            a += 8
            b = line.find('",tooltip=', a)
            if b < 0:
                b = line.find('",style = filled]', a)
                if b >= 0:
                    filled.append(nid)
            if b < 0:
                b = line.rfind('"]')
            nodes[nid] = line[a:b]
    return nodes, filled, edges


def build(dot, out, log=None, conf="FALSE", parsed=None):
    raw, filled, edges = parsed if parsed else read_dot(dot)
    init = None
    for nid in filled:
        if f"conf = {conf}" in raw[nid]:
            if init is not None and init != nid:
                raise SystemExit("graph2nfa: more than one initial state")
            init = nid
    nodes = {}
    if init is None:
        raise SystemExit("graph2nfa: no initial state in the dump")
    # stable renumbering: breadth first from the initial state, successors ordered by label
    succ = {}
    for (a, b, lab) in edges:
        succ.setdefault(a, []).append((lab, b))
    for v in succ.values():
        v.sort()
    num, order = {init: 0}, [init]
    i = 0
    while i < len(order):
        for (_, b) in succ.get(order[i], []):
            if b not in num:
                num[b] = len(order)
                order.append(b)
        i += 1
    for o in order:
        nodes[o] = parse_state(raw[o])
    if any(f"conf = {conf}" not in nodes[o][2] for o in order):
        raise SystemExit("graph2nfa: the mode changed along a path")
    graph = sorted({(num[a], num[b], lab[0], lab[1], lab[2]) for (a, b, lab) in edges if a in num})
    ended = {"Released", "Failed", "Aborted", "Closed"}
    final = [n for n in range(len(order)) if all(nodes[order[n]][0][s] in ended for s in "RA")]
    info = [{"st": nodes[o][0], "open": nodes[o][1]} for o in order]
    nfa_edges, nstates = [], len(order)
    for (a, b, act, s, k) in graph:
        evs = events(act, s, k)
        cur = a
        for j, e in enumerate(evs):
            if j == len(evs) - 1:
                nxt = b
            else:
                nxt = nstates
                nstates += 1
            nfa_edges.append([cur, e, nxt])
            cur = nxt
    tlc = {}
    if log:
        txt = open(log).read()
        m = re.search(r'(\d+) states generated, (\d+) distinct states found, (\d+) states left on queue', txt)
        if m:
            tlc = {"states_generated": int(m.group(1)), "distinct_states": int(m.group(2)), "queue": int(m.group(3))}
        m = re.search(r'depth of the complete state graph search is (\d+)', txt)
        if m:
            tlc["depth"] = int(m.group(1))
        tlc["no_error"] = "No error has been found" in txt
    doc = {"model_states": len(order), "model_transitions": len(graph), "tlc": tlc,
           "graph": [list(g) + [events(g[2], g[3], g[4])] for g in graph], "final": final, "info": info,
           "nfa_states": nstates, "nfa_edges": nfa_edges}
    with open(out, "w") as f:
        json.dump(doc, f)
    print(f"graph2nfa: {len(order)} model states, {len(graph)} transitions, NFA {nstates} states {len(nfa_edges)} edges, {len(final)} final")


def accept(doc, trace, complete):
    delta = {}
    for (a, e, b) in doc["nfa_edges"]:
        delta.setdefault((a, e), set()).add(b)
    cur = {0}
    for i, e in enumerate(trace):
        nxt = set()
        for q in cur:
            nxt |= delta.get((q, e), set())
        if not nxt:
            print(f"rejected at event {i}: {e}")
            return False
        cur = nxt
    if complete and not (cur & set(doc["final"])):
        print("rejected: the trace does not end in a state where both sides have ended")
        return False
    return True


def paths(doc, k):
    succ = {}
    for (a, b, act, s, kk, _evs) in doc["graph"]:
        succ.setdefault(a, []).append((f"{act}({s}{',' + kk if kk else ''})", b))
    out = []

    def rec(n, acc):
        nx = succ.get(n, [])
        if len(acc) == k or not nx:
            out.append(list(acc))
            return
        for (lab, b) in nx:
            acc.append(lab)
            rec(b, acc)
            acc.pop()
    rec(0, [])
    return out


def main(a):
    if len(a) >= 3 and a[0] == "build":
        log = a[a.index("--log") + 1] if "--log" in a else None
        conf = a[a.index("--conf") + 1] if "--conf" in a else "FALSE"
        parsed = read_dot(a[1])
        build(a[1], a[2], log, conf, parsed)
        if "--also" in a:  # --also <conf> <out>: second mode from the same parse
            k = a.index("--also")
            build(a[1], a[k + 2], log, a[k + 1], parsed)
    elif len(a) >= 2 and a[0] == "accept":
        doc = json.load(open(a[1]))
        rest = [x for x in a[2:] if x != "--complete"]
        ok = accept(doc, rest, "--complete" in a)
        print("accepted" if ok else "not accepted")
        sys.exit(0 if ok else 1)
    elif len(a) >= 3 and a[0] == "paths":
        doc = json.load(open(a[1]))
        ps = paths(doc, int(a[2]))
        if "--count" in a:
            print(len(ps))
        else:
            for p in ps:
                print(" ".join(p))
    else:
        print(__doc__)
        sys.exit(2)


if __name__ == "__main__":
    main(sys.argv[1:])
