\* conforming-SCP mode: the acceptor answers a release request with the release reply as its next emission (I4)
CONSTANTS
  Budget = 4
  Conforming = TRUE
INIT Init
NEXT Next
CHECK_DEADLOCK FALSE
INVARIANTS
  TypeOK
  I1
  I2
  I3
  I4
  I5
