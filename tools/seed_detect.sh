#!/bin/bash
# Run one or more checks (quick tier) against a confirmed seeded change and record the verdicts in
# /verif/seeded/<id>/meta.json ("detected_by").   usage: tools/seed_detect.sh <id> [check ...]
ID="$1"; shift; CHECKS="${*:-${ID%%-*}}"; D="/verif/seeded/$ID"
[ -f "$D/patch.diff" ] || { echo "no $D/patch.diff"; exit 2; }
for C in $CHECKS; do
  OUT=$(/verif/tools/mutant.sh seedrun "$D/patch.diff" "$C" quick 2>&1); RC=$?
  SUMMARY=$(echo "$OUT" | grep -E "^$C: tier" | tail -1)
  echo "$ID vs $C: exit=$RC  $SUMMARY"
  python3 - "$D/meta.json" "$C" "$RC" "$SUMMARY" <<'PY'
import json, sys
p, c, rc, summ = sys.argv[1:5]
m = json.load(open(p))
d = m.get('detected_by') or {}
d[c] = {"exit": int(rc), "detected": int(rc) == 1, "summary": summ, "cmd": f"tools/mutant.sh seedrun {p.rsplit('/',1)[0].replace('/verif/','')}/patch.diff {c} quick"}
m['detected_by'] = d
json.dump(m, open(p, 'w'), indent=1)
PY
done
