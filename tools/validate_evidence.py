import json, sys
import jsonschema
schema = json.load(open('/verif/tools/EVIDENCE.schema.json'))
ev = json.load(open(sys.argv[1]))
jsonschema.Draft202012Validator(schema).validate(ev)
