#!/usr/bin/env python3
"""Group a VERIF_DUMP_FAILS file by class keys. usage: triage.py file [key,key,...] [--unknown]"""
import json, sys, collections
rows=[json.loads(l) for l in open(sys.argv[1])]
keys = sys.argv[2].split(',') if len(sys.argv)>2 and not sys.argv[2].startswith('--') else None
if '--unknown' in sys.argv: rows=[r for r in rows if not r.get('known')]
g=collections.defaultdict(list)
for r in rows:
    c=r['class']
    k=tuple((k,str(c.get(k))) for k in (keys or sorted(c)))
    g[k].append(r)
for k,v in sorted(g.items(), key=lambda kv:-len(kv[1])):
    print(len(v), dict(k))
    print('    e.g.', v[0]['case_id'], json.dumps(v[0]["detail"].get("message", v[0]["detail"]))[:230])
print('total', len(rows), 'groups', len(g))
