#!/usr/bin/env python3
"""Print the prompt for a seeding sub-agent: only the property text + its scratch worktree."""
import json, sys
pid = sys.argv[1]
rnd = sys.argv[2] if len(sys.argv) > 2 else ''
wt = f'/tmp/seed{rnd}-{pid}'
p = next(json.loads(l) for l in open('/verif/properties.jsonl') if json.loads(l)['id'] == pid)
anch = p.get('anchors', {})
TEXT = (f"""You have your own scratch git worktree of the Rust project Enet4/dicom-rs (a pure-Rust DICOM library and tools) at {wt}. Do ALL your work inside {wt}; never read or write /repo or /verif (they are off limits), and do not look for other people's verification material. The sandbox has no network; use `--offline` with cargo.

Here is a semantic property that the code base is supposed to satisfy:

TITLE: {p['title']}
STATEMENT: {p['statement']}
QUANTIFIED OVER: {p['quantifier']['text']}
WHY THE EXISTING TESTS CANNOT SETTLE IT: {p['why_tests_cant']}
CODE IT IS ANCHORED IN: files {', '.join(anch.get('files', []))}; mechanisms: {'; '.join(m['name'] + ' @ ' + m['where'] for m in anch.get('mechanism', []))}

YOUR TASK: write a realistic change to the project's source code (a plausible bug a developer could introduce: an off-by-one, a wrong branch, a missed case, a reordered step, a stale field, a wrong constant in one of several parallel tables ...) that BREAKS this property while the project still COMPILES and its EXISTING TEST SUITE STILL PASSES. The breakage must need something specific in order to manifest — a particular input shape or boundary value, a multi-step sequence of operations, a particular interleaving or partial read/write, a fault at a particular point, or two cooperating sites that each look fine alone — not something ordinary use would expose at once (not: every call fails). Keep it small (a few lines, one or two sites) and touch only non-test source files.

Also write a DEMONSTRATION: a Rust integration test file (put it in the `tests/` directory of the most relevant crate, e.g. {wt}/object/tests/seed_demo.rs, name it seed_demo.rs) that FAILS with your change and PASSES without it, using only the public API (or the tool binaries) and no network/sample files. 

You must verify all of this yourself:
1. Without your change: the demonstration passes (`cargo test -p <crate> --test seed_demo --offline`).
2. With your change: it compiles, the demonstration fails, and the existing suite still passes. The suite command is `cd {wt} && cargo nextest run --workspace --no-fail-fast --offline --test-threads 8` (takes several minutes; some tests need sample files from the network and fail even on the untouched tree — only the tests named in the JSON list `stable_pass` of /root/.vp/BASELINE.json matter: every one of those must still pass; names there are `<nextest binary id>::<test name>`). If an existing test catches your change, choose a different change.
Set CARGO_TARGET_DIR={wt}/target for everything so all build output stays inside your worktree.

DELIVERABLES, all under {wt}/out/ :
- patch.diff : `git -C {wt} diff -- . ':!out' ':!*/tests/seed_demo.rs'` of the source change only (must apply with `git apply` to a clean checkout of the same commit);
- seed_demo.rs : the demonstration test, plus in notes.md the crate it belongs to and the exact command to run it;
- notes.md : what the change is, which part of the property statement it breaks, what exactly is needed for it to manifest, the smallest failing input/sequence you know, and the commands you ran with their results (suite summary line, demo pass/fail).
Leave the worktree with your change applied and the demo in place. Your final message: a 5-line summary (change, manifestation condition, demo crate+command, suite result).""")
EXTRA = " IMPORTANT: someone else has already made a first, straightforward change of this kind for this property. Yours must be DIFFERENT in kind: avoid the single most obvious site; prefer a different mechanism, file or entry point among those listed (a less-used entry point or option, state carried across successive calls, an interaction between two components, a rarely taken branch, a different configuration / feature / transfer syntax / strategy), so that a checker tuned to the obvious failure would still miss it."
MARK = "touch only non-test source files."
assert MARK in TEXT
print(TEXT.replace(MARK, MARK + EXTRA) if rnd else TEXT)
