#!/usr/bin/env python3
"""Build /verif/MANIFEST.json from checks.tsv + meta/<id>.json (+ not_applicable.json), validate it."""
import json, os, sys, subprocess
root = os.path.dirname(os.path.dirname(os.path.abspath(__file__)))
props = [json.loads(l)['id'] for l in open(f'{root}/properties.jsonl')]
rows = [l.rstrip('\n').split('\t') for l in open(f'{root}/checks.tsv') if l.strip()]
claimed = {}
for r in rows:
    pid = r[0]
    mp = f'{root}/meta/{pid}.json'
    if not os.path.exists(mp):
        print(f'note: {pid} is in checks.tsv but has no meta/{pid}.json -> not claimed', file=sys.stderr)
        continue
    claimed[pid] = json.load(open(mp))
na_reasons = {}
if os.path.exists(f'{root}/not_applicable.json'):
    na_reasons = json.load(open(f'{root}/not_applicable.json'))
checks = []
for pid in props:
    if pid not in claimed:
        continue
    m = claimed[pid]
    c = {
        'property_id': pid,
        'quick_cmd': f'./check {pid} quick',
        'thorough_cmd': f'./check {pid} thorough',
        'evidence_file': f'/verif/evidence/{pid}.json',
        'replay_cmd_template': f'./check {pid} --replay {{path}}',
        'engine': m.get('engine', 'vx-kit'),
        'level_claimed': {'category': m['category'], 'text': m['text'], 'design_ref': m.get('design_ref', f'DESIGN.md section 3, {pid}')},
        'level_note': m['level_note'],
        'technique': m['technique'],
    }
    checks.append(c)
na = [{'property_id': p, 'reason': na_reasons.get(p, 'check not built yet (work in progress in this session); not claimed')} for p in props if p not in claimed]
hooks_commits = []
if os.path.exists(f'{root}/hooks_commits.txt'):
    hooks_commits = [l.strip() for l in open(f'{root}/hooks_commits.txt') if l.strip()]
man = {
    'version': 1,
    'setup_cmd': './setup.sh',
    'hooks': {
        'guard': 'cargo feature "verif-hooks" of the crate dicom-ul (ul/Cargo.toml); off by default, enabled only by the harness crate vx-ul through its path dependency',
        'enable': 'harness/vx-ul/Cargo.toml depends on dicom-ul with features = ["async", "verif-hooks"]; ./check builds it with cargo build --release --offline -p vx-ul',
        'baseline_off_cmd': '/verif/tools/baseline.sh',
        'source_commits': hooks_commits,
        'add_only': True,
    },
    'engines': [
        {'name': 'vx-kit', 'path': 'harness/vx-kit', 'serves_properties': [c['property_id'] for c in checks],
         'kind_free_text': 'hand-rolled bounded-exhaustive explorer: choice-stack DFS with deviation bound, indexed finite universes sharded over cores, explicit-state BFS by re-execution, scripted transports; evidence/known-finding/replay handling'},
        {'name': 'vx-ref', 'path': 'harness/vx-ref', 'serves_properties': [c['property_id'] for c in checks],
         'kind_free_text': 'independent reference codecs (PS3.5 data sets, PS3.8 PDUs, ...) with no dicom-rs dependency, used as oracles'},
        {'name': 'TLC', 'path': 'tla', 'serves_properties': ['C30'], 'kind_free_text': 'TLA+ model of the association release/abort protocol; state graph dumped and bound to the implementation by trace replay in both directions'},
    ],
    'checks': checks,
    'not_applicable': na,
    'notes': 'All checks: ./check <id> quick|thorough. Exit 0 held / 1 VIOLATION / 2 machinery failure. Known findings: known_findings.json.',
}
json.dump(man, open(f'{root}/MANIFEST.json', 'w'), indent=1)
try:
    import jsonschema
    jsonschema.Draft202012Validator(json.load(open('/root/.vp/MANIFEST.schema.json'))).validate(man)
    print(f'MANIFEST ok: {len(checks)} checks, {len(na)} not_applicable')
except ImportError:
    print('jsonschema not importable; run with python3-vt', file=sys.stderr)
