#!/bin/bash
# Confirm a seeded change produced by a seeding sub-agent in /tmp/seed-<id>:
#   1. patch.diff applies to a clean checkout;  2. demo passes without it;  3. with it: compiles, demo fails;
#   4. with it: every BASELINE stable_pass test still passes.
# On success copies patch.diff, seed_demo.rs, notes.md into /verif/seeded/<id>/ and writes meta.json.
# usage: tools/confirm_seed.sh <id> <crate-of-demo> [--skip-suite]
set -u
ID="$1"; CRATE="$2"; WT="/tmp/seed${SEED_ROUND:-}-$ID"; OUT="$WT/out"
[ -f "$OUT/patch.diff" ] && [ -f "$OUT/seed_demo.rs" ] || { echo "missing deliverables in $OUT"; exit 2; }
export CARGO_TARGET_DIR="$WT/target" CARGO_NET_OFFLINE=true
cd "$WT" || exit 2
CRATE_DIR="$(cargo metadata --offline --no-deps --format-version 1 2>/dev/null | python3 -c "
import json,sys,os
m=json.load(sys.stdin)
for p in m['packages']:
    if p['name']=='$CRATE': print(os.path.dirname(p['manifest_path']))")"
[ -n "$CRATE_DIR" ] || { echo "crate $CRATE not found"; exit 2; }
git checkout -q -- . || exit 2
mkdir -p "$CRATE_DIR/tests" && cp "$OUT/seed_demo.rs" "$CRATE_DIR/tests/seed_demo.rs"
echo "== demo without the change (must pass)"
cargo test -p "$CRATE" --test seed_demo --offline ${DEMO_FEATURES:+--features $DEMO_FEATURES} >"$OUT/confirm_demo_clean.log" 2>&1; R_CLEAN=$?
echo "   exit=$R_CLEAN"
git apply "$OUT/patch.diff" || { echo "patch does not apply to a clean checkout"; exit 1; }
echo "== demo with the change (must fail, must compile)"
cargo test -p "$CRATE" --test seed_demo --offline ${DEMO_FEATURES:+--features $DEMO_FEATURES} >"$OUT/confirm_demo_patched.log" 2>&1; R_PATCH=$?
COMPILE_ERR=$(grep -c "^error\(\[E[0-9]*\]\)\?:" "$OUT/confirm_demo_patched.log" | head -1)
grep -q "could not compile" "$OUT/confirm_demo_patched.log" && COMPILED=0 || COMPILED=1
echo "   exit=$R_PATCH compiled=$COMPILED"
R_SUITE=skipped
if [ "${3:-}" != "--skip-suite" ]; then
  echo "== existing suite with the change (every stable_pass test must pass)"
  rm -f "$CRATE_DIR/tests/seed_demo.rs"
  if [ "${SUITE_LOG_FROM_AGENT:-0}" = 1 ]; then
    # time-saving mode: evaluate the suite log the seeding sub-agent produced with the change applied
    # (same command) with our own parser; tests missing from it are re-run here in isolation
    for f in suite.log nextest.log suite-run2.log; do [ -s "$OUT/$f" ] && { cp "$OUT/$f" "$OUT/confirm_suite.log"; break; }; done
    export BASELINE_REUSE_LOG=1
  fi
  BASELINE_REPO="$WT" /verif/tools/baseline.sh "$OUT/confirm_suite.log" | tee "$OUT/confirm_suite.summary"; R_SUITE=${PIPESTATUS[0]}
  cp "$OUT/seed_demo.rs" "$CRATE_DIR/tests/seed_demo.rs"
fi
OK=0
[ $R_CLEAN = 0 ] && [ $R_PATCH != 0 ] && [ $COMPILED = 1 ] && { [ "$R_SUITE" = 0 ] || [ "$R_SUITE" = skipped ]; } && OK=1
echo "== confirm $ID: clean_demo=$R_CLEAN patched_demo=$R_PATCH compiled=$COMPILED suite=$R_SUITE => $( [ $OK = 1 ] && echo CONFIRMED || echo REJECTED )"
if [ $OK = 1 ]; then
  D="/verif/seeded/$ID${SEED_ROUND:+-r$SEED_ROUND}"; mkdir -p "$D"
  cp "$OUT/patch.diff" "$OUT/seed_demo.rs" "$D/"; [ -f "$OUT/notes.md" ] && cp "$OUT/notes.md" "$D/"
  python3 - "$ID" "$CRATE" "$R_SUITE" "$(git rev-parse HEAD)" <<'PY'
import json, sys, datetime
pid, crate, suite, base = sys.argv[1:5]
import os
sfx = ('-r' + os.environ['SEED_ROUND']) if os.environ.get('SEED_ROUND') else ''
json.dump({
  "property": pid,
  "base_commit": base,
  "demo": {"crate": crate, "file": "seed_demo.rs", "command": f"cp seed_demo.rs <repo>/<crate dir>/tests/ && cargo test -p {crate} --test seed_demo --offline"},
  "needs_to_manifest": "see notes.md (written by the seeding sub-agent)",
  "confirmed": {"demo_passes_without_change": True, "compiles_with_change": True, "demo_fails_with_change": True,
                "existing_suite_with_change": ("all BASELINE stable_pass tests pass" if suite == "0" else suite) + (" (evaluated from the seeding sub-agent's suite log of the changed tree by tools/baseline.sh; tests missing there re-run in isolation here)" if os.environ.get("SUITE_LOG_FROM_AGENT") == "1" else " (suite run by tools/confirm_seed.sh)"),
                "how": "tools/confirm_seed.sh in the seeding worktree: git checkout -- . ; demo ; git apply patch.diff ; demo ; tools/baseline.sh"},
  "detected_by": None
}, open(f'/verif/seeded/{pid}{sfx}/meta.json', 'w'), indent=1)
PY
fi
[ $OK = 1 ]
