#!/bin/bash
# Run every registered check in the given tier, sequentially; print id, exit code, wall seconds.
TIER="${1:-quick}"; cd "$(dirname "$0")/.."
for id in $(cut -f1 checks.tsv | sort -u); do
  S=$(date +%s.%N); OUT=$(./check $id $TIER 2>/tmp/runall-$id.err); RC=$?; E=$(date +%s.%N)
  printf "%s rc=%s wall=%.1fs %s\n" "$id" "$RC" "$(echo "$E - $S" | bc)" "$(echo "$OUT" | grep -c KNOWN-FINDING) known-finding lines"
done
