#!/bin/bash
# Run one check against a MUTATED copy of the repository, without touching /repo.
#   tools/mutant.sh <sandbox-name> <patch-file> <Cxx> [quick|thorough]
# A persistent sandbox /tmp/vxmut-<name>/ holds a git worktree of /repo (at /repo's HEAD), a copy of
# /verif whose harness path-dependencies point at that worktree, and its own build output
# (incremental across calls). Exit code = the check's exit code (1 = mutation detected).
# Remove a sandbox with: tools/mutant.sh <name> --remove
set -u
NAME="$1"; SB="/tmp/vxmut-$NAME"
if [ "${2:-}" = "--remove" ]; then
  git -C /repo worktree remove --force "$SB/repo" 2>/dev/null; rm -rf "$SB"; git -C /repo worktree prune; exit 0
fi
PATCH="$(readlink -f "$2")"; ID="$3"; TIER="${4:-quick}"
mkdir -p "$SB"
if [ ! -d "$SB/repo" ]; then git -C /repo worktree add -q --detach "$SB/repo" HEAD || exit 2; fi
git -C "$SB/repo" checkout -q -- . && git -C "$SB/repo" checkout -q --detach "$(git -C /repo rev-parse HEAD)" || exit 2
rsync -a --delete --exclude '/target*' --exclude .git --exclude /evidence --exclude /replays /verif/ "$SB/verif/"
grep -rl '"/repo/' "$SB/verif/harness" --include=Cargo.toml | xargs -r sed -i "s#\"/repo/#\"$SB/repo/#g"
if [ "$PATCH" != "/dev/null" ]; then
  git -C "$SB/repo" apply "$PATCH" || { echo "patch does not apply" >&2; exit 3; }
fi
( cd "$SB/verif" && VERIF_REPO="$SB/repo" VERIF_TARGET="$SB/verif/target" ./check "$ID" "$TIER" )
RC=$?
git -C "$SB/repo" checkout -q -- .
echo "mutant.sh: check $ID exit=$RC (sandbox $SB)"
exit $RC
