#!/bin/bash
# Run the repository's baseline suite (hooks guard OFF: no harness feature is involved) and compare
# with /root/.vp/BASELINE.json stable_pass. Exit 0 iff every stable test passes.
set -u
cd "${BASELINE_REPO:-/repo}" || exit 2
OUT="${1:-/tmp/baseline.$$.log}"
if [ "${BASELINE_REUSE_LOG:-0}" = 1 ] && [ -s "$OUT" ]; then
  echo "(re-evaluating existing suite log $OUT; missing tests are re-run in isolation)"
else
  CARGO_NET_OFFLINE=true cargo nextest run --workspace --no-fail-fast --test-threads 8 --offline >"$OUT" 2>&1
fi
python3 - "$OUT" <<'PY'
import json, re, sys
base = json.load(open('/root/.vp/BASELINE.json'))
stable = set(base['stable_pass'])
passed = set()
for line in open(sys.argv[1], errors='replace'):
    m = re.match(r'\s+PASS \[.*?\] (?:\(\s*\d+/\d+\) )?(\S+) (\S+)', line)
    if m:
        passed.add(m.group(1) + '::' + m.group(2))
missing = sorted(stable - passed)
# wall-clock-sensitive tests (e.g. dicom-ul test_slow_association*) can miss their 25 ms tolerance on a
# loaded machine: re-run each missing test alone, up to 3 times, before calling it not passed
import subprocess, os
still = []
for name in missing:
    parts = name.split('::')
    pkg = parts[0]
    # binary id is "<pkg>" (lib tests) or "<pkg>::<target>"; try the longest test path first
    ok = False
    for k in (1, 2):
        filt = '::'.join(parts[k:])
        if not filt:
            continue
        for attempt in range(3):
            r = subprocess.run(['cargo', 'nextest', 'run', '--workspace', '--offline', '--test-threads', '1', filt], capture_output=True, text=True)
            out = r.stdout + r.stderr
            if r.returncode == 0 and re.search(r'\b[1-9][0-9]* passed', out):
                ok = True
                break
        if ok:
            break
    if ok:
        print('  passed on isolated re-run:', name)
    else:
        still.append(name)
missing = still
print(f'stable={len(stable)} passed_total={len(passed)} stable_missing={len(missing)}')
for m in missing[:40]:
    print('  NOT PASSED:', m)
sys.exit(1 if missing else 0)
PY
