#!/bin/bash
# Run the repository's baseline suite (hooks guard OFF: no harness feature is involved) and compare
# with /root/.vp/BASELINE.json stable_pass. Exit 0 iff every stable test passes.
set -u
cd "${BASELINE_REPO:-/repo}" || exit 2
OUT="${1:-/tmp/baseline.$$.log}"
CARGO_NET_OFFLINE=true cargo nextest run --workspace --no-fail-fast --test-threads 8 --offline >"$OUT" 2>&1
python3 - "$OUT" <<'PY'
import json, re, sys
base = json.load(open('/root/.vp/BASELINE.json'))
stable = set(base['stable_pass'])
passed = set()
for line in open(sys.argv[1], errors='replace'):
    m = re.match(r'\s+PASS \[.*?\] (?:\(\s*\d+/\d+\) )?(\S+) (\S+)', line)
    if m:
        passed.add(m.group(1) + '::' + m.group(2))
missing = sorted(stable - passed)
print(f'stable={len(stable)} passed_total={len(passed)} stable_missing={len(missing)}')
for m in missing[:40]:
    print('  NOT PASSED:', m)
sys.exit(1 if missing else 0)
PY
