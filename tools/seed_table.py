#!/usr/bin/env python3
"""Write /verif/seeded/README.md: one row per confirmed seeded change with the checks' verdicts."""
import json, glob, os, re
rows = []
for d in sorted(glob.glob('/verif/seeded/*/')):
    mp = d + 'meta.json'
    if not os.path.exists(mp): continue
    m = json.load(open(mp))
    notes = open(d + 'notes.md').read() if os.path.exists(d + 'notes.md') else ''
    first = next((l.strip() for l in notes.splitlines() if l.strip() and not l.startswith('#')), '')
    files = sorted(set(re.findall(r'^\+\+\+ b/(\S+)', open(d + 'patch.diff').read(), re.M)))
    det = m.get('detected_by') or {}
    verdict = '; '.join(f"{c}: {'DETECTED' if v['detected'] else 'missed'} (exit {v['exit']})" for c, v in det.items()) or 'not run'
    rows.append((os.path.basename(d.rstrip('/')), ', '.join(files), first[:220].replace('|', '/'), verdict))
with open('/verif/seeded/README.md', 'w') as f:
    f.write('# Seeded property-breaking changes\n\nEach directory holds `patch.diff` (the change), `seed_demo.rs` (a test that fails with it and passes without), `notes.md` (the seeding sub-agent\'s description: what it breaks, what it needs to manifest) and `meta.json` (what was confirmed and which checks detect it; verdicts are from `tools/seed_detect.sh`, quick tier, sandboxed copy of the repository). The sub-agents saw only the property text and a scratch worktree.\n\n| id | files touched | change (first line of notes) | verdicts |\n|---|---|---|---|\n')
    for r in rows:
        f.write('| ' + ' | '.join(r) + ' |\n')
print(len(rows), 'rows')
