#!/bin/bash
# extract the generated dictionary tables from the working tree of /repo
set -e
ROOT="$(cd "$(dirname "${BASH_SOURCE[0]}")/.." && pwd)"
mkdir -p "$ROOT/target/dict"
python3 "$ROOT/ref/dict_extract.py" "${VERIF_REPO:-/repo}" "$ROOT/target/dict"
