#!/bin/bash
# C30 pre-step: model-check tla/Assoc.tla with TLC (offline), dump the state graph, build the automaton.
# Fails (exit != 0) if TLC reports an invariant violation or any error. Output: $VERIF_ROOT/target/tla/
set -e
ROOT="$(cd "$(dirname "${BASH_SOURCE[0]}")/.." && pwd)"
OUT="$ROOT/target/tla"
rm -rf "$OUT"; mkdir -p "$OUT"
cp "$ROOT/tla/Assoc.tla" "$ROOT/tla/Assoc.cfg" "$ROOT/tla/AssocScp.cfg" "$OUT/"
cd "$OUT"
# small JVM: the model has ~1000 states, start-up dominates
export JAVA_TOOL_OPTIONS="${JAVA_TOOL_OPTIONS:--XX:TieredStopAtLevel=1 -XX:ParallelGCThreads=2 -Xmx1g}"
run() { # <cfg> <tag>
  tlc -workers 1 -metadir "$OUT/states-$2" -dump dot,actionlabels "$OUT/$2.dot" -config "$1" Assoc.tla >"$OUT/$2.log" 2>&1 \
    || { cat "$OUT/$2.log"; echo "TLC failed on $1"; exit 1; }
  grep -q "Model checking completed. No error has been found." "$OUT/$2.log" || { cat "$OUT/$2.log"; echo "TLC reported an error on $1"; exit 1; }
  python3 "$ROOT/tla/graph2nfa.py" build "$OUT/$2.dot" "$OUT/$2.json" --log "$OUT/$2.log"
}
run Assoc.cfg assoc &
P1=$!
run AssocScp.cfg assoc_scp &
P2=$!
wait $P1; wait $P2
test -s "$OUT/assoc.json" && test -s "$OUT/assoc_scp.json"
