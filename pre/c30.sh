#!/bin/bash
# C30 pre-step: model-check tla/Assoc.tla with TLC (offline), dump the state graph, build the automaton.
# Fails (exit != 0) if TLC reports an invariant violation or any error. Output: $VERIF_ROOT/target/tla/
set -e
ROOT="$(cd "$(dirname "${BASH_SOURCE[0]}")/.." && pwd)"
OUT="$ROOT/target/tla"
rm -rf "$OUT"; mkdir -p "$OUT"
cp "$ROOT/tla/Assoc.tla" "$ROOT/tla/Assoc.cfg" "$OUT/"
cd "$OUT"
# small JVM: the model has ~1000 states, start-up dominates
export JAVA_TOOL_OPTIONS="${JAVA_TOOL_OPTIONS:--XX:TieredStopAtLevel=1 -XX:ParallelGCThreads=2 -Xmx1g}"
tlc -workers 1 -metadir "$OUT/states" -dump dot,actionlabels "$OUT/assoc.dot" -config Assoc.cfg Assoc.tla >"$OUT/tlc.log" 2>&1 \
  || { cat "$OUT/tlc.log"; echo "TLC failed"; exit 1; }
grep -q "Model checking completed. No error has been found." "$OUT/tlc.log" || { cat "$OUT/tlc.log"; echo "TLC reported an error"; exit 1; }
python3 "$ROOT/tla/graph2nfa.py" build "$OUT/assoc.dot" "$OUT/assoc.json" --conf FALSE --log "$OUT/tlc.log" --also TRUE "$OUT/assoc_scp.json"
test -s "$OUT/assoc.json" && test -s "$OUT/assoc_scp.json"
# part 4 drives the real storescp binary: build the tools from the working tree
bash "$ROOT/pre/tools.sh"
