#!/bin/bash
# C16 pre-step: build the probe against the registry's DEFAULT feature set (separate package, so
# cargo does not unify features with vx-pix). Runs in harness/ with CARGO_TARGET_DIR exported by ./check.
set -e
cargo build --release --offline -p vx-pix-default --bin c16_default
