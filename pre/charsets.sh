#!/bin/bash
# C10 pre-step: independent character repertoires from Python's own codecs
# (one round-trip bitmap and one encodable bitmap per defined term) into $VERIF_ROOT/target/charsets/
set -e
ROOT="${VERIF_ROOT:-$(cd "$(dirname "${BASH_SOURCE[0]}")/.." && pwd)}"
OUT="$ROOT/target/charsets"
mkdir -p "$OUT"
# The tables depend only on the script and the Python build (the script itself re-checks a stamp of
# both); skip the interpreter start when the stamp is newer than the script and all 32 bitmaps exist.
if [ "$OUT/STAMP" -nt "$ROOT/ref/charset_tables.py" ] && [ "$(ls "$OUT"/*.bin 2>/dev/null | wc -l)" = 32 ]; then
  exit 0
fi
python3 "$ROOT/ref/charset_tables.py" "$OUT"
