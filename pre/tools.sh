#!/bin/bash
# build the real command line tools (storescp, storescu, fromimage, toimage) from the working tree
# of the repository, with their default features, into <target>/repo (git-ignored)
set -e
ROOT="${VERIF_ROOT:-$(cd "$(dirname "${BASH_SOURCE[0]}")/.." && pwd)}"
REPO="${VERIF_REPO:-/repo}"
TGT="${VERIF_TARGET:-$ROOT/target}/repo"
mkdir -p "$TGT"
# CARGO_TARGET_DIR is exported by ./check for the harness workspace; --target-dir overrides it
cargo build --release --offline --manifest-path "$REPO/Cargo.toml" \
  -p dicom-storescp -p dicom-storescu -p dicom-fromimage -p dicom-toimage \
  --target-dir "$TGT"
for b in dicom-storescp dicom-storescu dicom-fromimage dicom-toimage; do
  test -x "$TGT/release/$b" || { echo "tools.sh: $TGT/release/$b missing" >&2; exit 1; }
done
