#!/usr/bin/env python3
"""Independent character repertoires for C10, from Python's own codecs.

usage: charset_tables.py <outdir>

For each of the 16 defined terms of Specific Character Set (0008,0005) that dicom-rs supports,
writes two bitmaps over all code points 0..0x10FFFF (bit i of byte i>>3, LSB first):

  <slug>.rt.bin   round-trip repertoire: Python's codec for the term encodes the scalar and decodes
                  the result back to the same scalar
  <slug>.enc.bin  every scalar Python's codec encodes at all (superset: includes one-way aliases
                  such as U+00A5 -> 5C in the Japanese sets)

and terms.tsv (term, python codec, slug, |rt|, |enc|). The mapping term -> Python codec is taken
from PS3.3 C.12.1.1.2 / PS3.5 (ISO_IR 13 = JIS X 0201 = the single-byte half of shift_jis,
ISO_IR 87 = JIS X 0208 via ISO 2022 = iso2022_jp, ISO_IR 149 = KS X 1001 = euc_kr,
ISO_IR 166 = TIS 620), not from dicom-rs.
"""
import os
import sys

TERMS = [
    ("ISO_IR 6", "ascii"),
    ("ISO_IR 13", "shift_jis"),  # single-byte half only
    ("ISO_IR 87", "iso2022_jp"),
    ("ISO_IR 100", "iso8859_1"),
    ("ISO_IR 101", "iso8859_2"),
    ("ISO_IR 109", "iso8859_3"),
    ("ISO_IR 110", "iso8859_4"),
    ("ISO_IR 126", "iso8859_7"),
    ("ISO_IR 127", "iso8859_6"),
    ("ISO_IR 138", "iso8859_8"),
    ("ISO_IR 144", "iso8859_5"),
    ("ISO_IR 149", "euc_kr"),
    ("ISO_IR 166", "tis_620"),
    ("ISO_IR 192", "utf_8"),
    ("GB18030", "gb18030"),
    ("GBK", "gbk"),
]

NBITS = 0x110000


def is_scalar(cp):
    return not (0xD800 <= cp <= 0xDFFF)


def bitmap(cps):
    b = bytearray(NBITS // 8)
    for cp in cps:
        b[cp >> 3] |= 1 << (cp & 7)
    return bytes(b)


def per_char(codec, rng, single_byte_only=False):
    rt, enc = set(), set()
    for cp in rng:
        if not is_scalar(cp):
            continue
        c = chr(cp)
        try:
            e = c.encode(codec)
        except UnicodeError:
            continue
        if single_byte_only and len(e) != 1:
            continue
        enc.add(cp)
        try:
            if e.decode(codec) == c:
                rt.add(cp)
        except UnicodeError:
            pass
    return rt, enc


PLANES = []


def make_planes():
    for lo in range(0, NBITS, 0x10000):
        if lo == 0:
            PLANES.append("".join(map(chr, range(0, 0xD800))) + "".join(map(chr, range(0xE000, 0x10000))))
        else:
            PLANES.append("".join(map(chr, range(lo, lo + 0x10000))))
ALL_SCALARS = None  # marker: every scalar value


def all_scalars_bulk(codec):
    """Check in bulk that every scalar value round-trips."""
    for s in PLANES:
        try:
            if s.encode(codec).decode(codec) != s:
                return False
        except UnicodeError:
            return False
    return True


def full_bitmap():
    b = bytearray(b"\xff" * (NBITS // 8))
    for cp in range(0xD800, 0xE000, 8):
        b[cp >> 3] = 0
    return bytes(b)


def stamp():
    import hashlib
    h = hashlib.sha256(open(__file__, "rb").read()).hexdigest()[:16]
    return f"{sys.version.split()[0]} {h}"


def main():
    out = sys.argv[1]
    os.makedirs(out, exist_ok=True)
    # the tables depend only on this script and on the Python build: reuse them when both are unchanged
    sp = os.path.join(out, "STAMP")
    if os.path.exists(sp) and open(sp).read() == stamp() and all(
        os.path.exists(os.path.join(out, t.replace(" ", "_") + e)) for t, _ in TERMS for e in (".rt.bin", ".enc.bin")
    ):
        return
    make_planes()
    rows = []
    for term, codec in TERMS:
        slug = term.replace(" ", "_")
        if codec in ("utf_8", "gb18030"):
            if all_scalars_bulk(codec):
                rt, enc = ALL_SCALARS, ALL_SCALARS
            else:
                # some scalar does not round-trip in bulk: fall back to the exact per-character pass
                rt, enc = per_char(codec, range(NBITS))
        elif codec == "shift_jis":
            rt, enc = per_char(codec, range(0x10000), single_byte_only=True)
        else:
            # none of these codecs encodes anything outside the BMP: verified exactly, in bulk
            # (with errors='ignore' an unencodable character contributes no byte)
            rt, enc = per_char(codec, range(0x10000))
            for k in range(1, 17):
                lo = k * 0x10000
                if PLANES[k].encode(codec, "ignore") != b"":
                    extra_rt, extra_enc = per_char(codec, range(lo, lo + 0x10000))
                    rt |= extra_rt
                    enc |= extra_enc
        nall = NBITS - 0x800
        with open(os.path.join(out, slug + ".rt.bin"), "wb") as f:
            f.write(full_bitmap() if rt is ALL_SCALARS else bitmap(rt))
        with open(os.path.join(out, slug + ".enc.bin"), "wb") as f:
            f.write(full_bitmap() if enc is ALL_SCALARS else bitmap(enc))
        rows.append((term, codec, slug, nall if rt is ALL_SCALARS else len(rt), nall if enc is ALL_SCALARS else len(enc)))
    with open(os.path.join(out, "terms.tsv"), "w") as f:
        for r in rows:
            f.write("\t".join(str(x) for x in r) + "\n")
    with open(sp, "w") as f:
        f.write(stamp())


if __name__ == "__main__":
    main()
