#!/usr/bin/env python3
"""Extract the generated data element table from /repo/dictionary-std/src/tags.rs (ground truth named
by C15) into a TSV: kind(single|group100|element100) gggg eeee alias vr(virtual: exact VR or xs/ox/px/lt) const_name
Also extracts uids.rs SOP class entries when asked. Usage: dict_extract.py <repo> <out_dir>"""
import re, sys, os
repo, out = sys.argv[1], sys.argv[2]
os.makedirs(out, exist_ok=True)
src = open(os.path.join(repo, 'dictionary-std/src/tags.rs')).read()
consts = {}
for m in re.finditer(r'pub const (\w+): Tag = Tag\(0x([0-9A-Fa-f]{4}), 0x([0-9A-Fa-f]{4})\);', src):
    consts[m.group(1)] = ('single', m.group(2).upper(), m.group(3).upper())
for m in re.finditer(r'pub const (\w+): TagRange = (\w+)\(Tag\(0x([0-9A-Fa-f]{4}), 0x([0-9A-Fa-f]{4})\)\);', src):
    consts[m.group(1)] = (m.group(2).lower(), m.group(3).upper(), m.group(4).upper())
rows = []
for m in re.finditer(r'^\s*E \{ tag: (?:Single\((\w+)\)|(\w+)), alias: "([^"]*)", vr: (?:Exact\((\w+)\)|(\w+)) \}', src, re.M):
    name = m.group(1) or m.group(2)
    kind, g, e = consts[name]
    if m.group(1):
        assert kind == 'single', name
    vr = m.group(4) or m.group(5).lower()
    rows.append((kind, g, e, m.group(3), vr, name))
n_entries = len(re.findall(r'^\s*E \{', src, re.M))
assert n_entries == len(rows), (n_entries, len(rows))
with open(os.path.join(out, 'dict.tsv'), 'w') as f:
    for r in rows:
        f.write('\t'.join(r) + '\n')
# tag constants (for "every tag constant equals its entry's tag")
with open(os.path.join(out, 'consts.tsv'), 'w') as f:
    for k, (kind, g, e) in consts.items():
        f.write(f'{k}\t{kind}\t{g}\t{e}\n')
# UIDs
usrc = open(os.path.join(repo, 'dictionary-std/src/uids.rs')).read()
uconsts = dict(re.findall(r'pub const (\w+): &str = "([^"]*)";', usrc))
with open(os.path.join(out, 'uid_consts.tsv'), 'w') as f:
    for k, v in uconsts.items():
        f.write(f'{k}\t{v}\n')
print(f'dict entries={len(rows)} consts={len(consts)} uid consts={len(uconsts)}')
