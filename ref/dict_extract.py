#!/usr/bin/env python3
"""Extract the generated data element table from /repo/dictionary-std/src/tags.rs (ground truth named
by C15) into a TSV: kind(single|group100|element100) gggg eeee alias vr(virtual: exact VR or xs/ox/px/lt) const_name
Also extracts uids.rs SOP class entries when asked. Usage: dict_extract.py <repo> <out_dir>"""
import re, sys, os
repo, out = sys.argv[1], sys.argv[2]
os.makedirs(out, exist_ok=True)
src = open(os.path.join(repo, 'dictionary-std/src/tags.rs')).read()
consts = {}
for m in re.finditer(r'pub const (\w+): Tag = Tag\(0x([0-9A-Fa-f]{4}), 0x([0-9A-Fa-f]{4})\);', src):
    consts[m.group(1)] = ('single', m.group(2).upper(), m.group(3).upper())
for m in re.finditer(r'pub const (\w+): TagRange = (\w+)\(Tag\(0x([0-9A-Fa-f]{4}), 0x([0-9A-Fa-f]{4})\)\);', src):
    consts[m.group(1)] = (m.group(2).lower(), m.group(3).upper(), m.group(4).upper())
rows = []
for m in re.finditer(r'^\s*E \{ tag: (?:Single\((\w+)\)|(\w+)), alias: "([^"]*)", vr: (?:Exact\((\w+)\)|(\w+)) \}', src, re.M):
    name = m.group(1) or m.group(2)
    kind, g, e = consts[name]
    if m.group(1):
        assert kind == 'single', name
    vr = m.group(4) or m.group(5).lower()
    rows.append((kind, g, e, m.group(3), vr, name))
n_entries = len(re.findall(r'^\s*E \{', src, re.M))
assert n_entries == len(rows), (n_entries, len(rows))
with open(os.path.join(out, 'dict.tsv'), 'w') as f:
    for r in rows:
        f.write('\t'.join(r) + '\n')
# tag constants (for "every tag constant equals its entry's tag")
with open(os.path.join(out, 'consts.tsv'), 'w') as f:
    for k, (kind, g, e) in consts.items():
        f.write(f'{k}\t{kind}\t{g}\t{e}\n')
# UIDs
usrc = open(os.path.join(repo, 'dictionary-std/src/uids.rs')).read()
uconsts = dict(re.findall(r'pub const (\w+): &str = "([^"]*)";', usrc))
with open(os.path.join(out, 'uid_consts.tsv'), 'w') as f:
    for k, v in uconsts.items():
        f.write(f'{k}\t{v}\n')
print(f'dict entries={len(rows)} consts={len(consts)} uid consts={len(uconsts)}')

# --- additions for C15 (new files; the three outputs above keep their format) ---
# docs.tsv: the doc comment printed above every tag constant ("/// Alias (gggg,eeee) VR VM SOURCE"):
# an independent rendering of the published table: const_name, alias, tag pattern text, VR text
docs = re.findall(r'^/// (\S+) \(([^)]*)\) (\S+) (\S+) (\S+)\n(?:#\[[^\n]*\]\n)*pub const (\w+):', src, re.M)
with open(os.path.join(out, 'docs.tsv'), 'w') as f:
    for alias, pat, vr, vm, source, name in docs:
        f.write(f'{name}\t{alias}\t{pat}\t{vr}\t{vm}\n')
# sop_classes.tsv: the SOP_CLASSES entry table of uids.rs: uid, name, alias, type, retired
m = re.search(r'pub\(crate\) const SOP_CLASSES: &\[E\] = &\[(.*?)\n\];', usrc, re.S)
sop = re.findall(r'E::new\("([^"]*)", "((?:[^"\\]|\\.)*)", "([^"]*)", (\w+), (true|false)\)', m.group(1)) if m else []
n_sop = len(re.findall(r'E::new\(', m.group(1))) if m else 0
assert n_sop == len(sop), (n_sop, len(sop))
with open(os.path.join(out, 'sop_classes.tsv'), 'w') as f:
    for uid, name, alias, ty, retired in sop:
        f.write(f'{uid}\t{name}\t{alias}\t{ty}\t{retired}\n')
# uid_docs.tsv: doc comment of every UID constant ("/// Type: Name"): const_name, uid, type text, name text
udocs = re.findall(r'^/// ([^:\n]+): ([^\n]*)\n(?:#\[[^\n]*\]\n)*pub const (\w+): &str = "([^"]*)";', usrc, re.M)
with open(os.path.join(out, 'uid_docs.tsv'), 'w') as f:
    for ty, name, cname, uid in udocs:
        f.write(f'{cname}\t{uid}\t{ty}\t{name}\n')
print(f'docs={len(docs)} sop classes={len(sop)} uid docs={len(udocs)}')
