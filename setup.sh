#!/bin/bash
# Build the framework offline from files on disk. Safe to re-run.
set -e
ROOT="$(cd "$(dirname "${BASH_SOURCE[0]}")" && pwd)"
export CARGO_NET_OFFLINE=true
cd "$ROOT/harness"
mkdir -p "$ROOT/target" "$ROOT/evidence"
bash "$ROOT/pre/dict.sh"
cargo build --release --offline --workspace 2>&1 | tail -3
for p in "$ROOT"/pre/setup-*.sh; do [ -e "$p" ] && bash "$p"; done
echo "setup done"
