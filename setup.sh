#!/bin/bash
# Build the framework offline from files on disk. Safe to re-run.
# Each registered check's binary is built exactly the way ./check builds it (per package, so cargo
# features are not unified across harness crates), then the pre-steps are run once.
set -e
ROOT="$(cd "$(dirname "${BASH_SOURCE[0]}")" && pwd)"
export CARGO_NET_OFFLINE=true
export CARGO_TARGET_DIR="${VERIF_TARGET:-$ROOT/target}"
cd "$ROOT/harness"
mkdir -p "$CARGO_TARGET_DIR" "$ROOT/target" "$ROOT/evidence"
for pkg in $(cut -f2 "$ROOT/checks.tsv" | sort -u); do
  echo "== building $pkg"
  cargo build --release --offline -p "$pkg" --bins 2>&1 | tail -2
done
for pre in $(cut -f4 "$ROOT/checks.tsv" | sort -u); do
  [ "$pre" = "-" ] || [ -z "$pre" ] && continue
  echo "== pre-step $pre"
  bash "$ROOT/pre/$pre" quick >/dev/null 2>&1 || { echo "pre-step $pre failed" >&2; exit 1; }
done
echo "setup done"
